#!/bin/sh
# Builds the harness test binaries once (warms the Go build cache); offline.
set -e
cd "$(dirname "$0")"
export GOFLAGS=-mod=mod GOPROXY=off GOSUMDB=off GOTOOLCHAIN=local
mkdir -p .build evidence replays
[ -f harness/go.sum ] || cp /repo/go.sum harness/go.sum
(cd harness && go test -c -vet=off -o ../.build/props.test ./props)
(cd harness && go test -c -vet=off -race -o ../.build/props-race.test ./props)
echo setup ok
