NOTES = "All checks are property-based tests (rapid) or exhaustive enumerations over generated inputs with explicit oracles; see DESIGN.md. Exit 2 from a check means inconclusive (build failure / time budget), never a violation."

NOT_APPLICABLE = []

_ALL = ["C%02d" % i for i in range(1, 21)]

TEXT = {
 "C02": {
  "technique": "property-based testing (rapid): generated pages with unique word tokens; oracle = subset / no-duplicate / order-preserving relation between source DOM and both output views",
  "level": "Exploration: thousands of generated article pages per run; every output token of Text and of the HTML view is checked to come from visible source text, once, in source order. Random search cannot show absence; it reaches all block kinds of the grammar with measured frequencies.",
  "note": "Trusts the harness's source walker and golang.org/x/net/html parsing of the generated page; ASCII tokens only.",
  "ref": "DESIGN.md 4/C02",
 },
}
