NOTES = "All checks are property-based tests (rapid) or exhaustive enumerations over generated inputs with explicit oracles; see DESIGN.md. Exit 2 from a check means inconclusive (build failure / time budget), never a violation."

NOT_APPLICABLE = []

_T = "Trusts the harness's own source walker and golang.org/x/net/html parsing of the generated page; ASCII word tokens only; bounded page size."

TEXT = {
 "C02": {
  "technique": "property-based testing (rapid): generated pages with unique word tokens; oracle = subset / no-duplicate / order-preserving relation between source DOM and both output views",
  "level": "Exploration: thousands of generated article pages per run; every output token of Text and of the HTML view is checked to come from visible source text, once, in source order. Random search cannot show absence; it reaches all block kinds of the grammar with measured frequencies.",
  "note": _T, "ref": "DESIGN.md 4/C02",
 },
 "C03": {
  "technique": "property-based testing (rapid): generated paragraphs mixing the inline kinds the property names; oracle = per simple <p> of the parsed source, all visible tokens in Text or none",
  "level": "Exploration: thousands of generated pages, every simple paragraph (by the property's definition, decided on the parsed DOM) is checked for all-or-nothing retention, in body, list items, quotes, layout and data cells.",
  "note": _T, "ref": "DESIGN.md 4/C03",
 },
 "C04": {
  "technique": "property-based testing (rapid): generated pages with class-A/class-B carriers at every placement; oracle = carrier tokens absent from Text and from serialised HTML outside placeholders; thorough tier adds coverage-guided go fuzzing of the generator's bit-stream (rapid.MakeFuzz, same oracle)",
  "level": "Exploration: thousands of generated pages per run with carriers at every placement the property lists; the oracle searches both views (text tokens, attribute values, script bodies, comments) for carrier tokens.",
  "note": _T + " Only the hiding spellings the property names are generated.", "ref": "DESIGN.md 4/C04",
 },
 "C05": {
  "technique": "property-based testing (rapid): generated pages with forbidden attributes on any element and script/style inside wholesale-cloned subtrees; oracle = structural scan of Result.Node",
  "level": "Exploration: thousands of generated pages per run; every element and attribute of the distilled tree is scanned for script/style elements, on* handlers, id/class/style/data-* attributes (placeholder wrapper markers excepted).",
  "note": _T, "ref": "DESIGN.md 4/C05",
 },
 "C06": {
  "technique": "property-based testing (rapid): URL references of every form built together with their expected resolution (by construction, no net/url); oracle = equality of every URL attribute and ContentImages entry with the constructed expectation; thorough tier adds coverage-guided go fuzzing of the generator's bit-stream (rapid.MakeFuzz, same oracle)",
  "level": "Exploration: thousands of generated pages per run with a page URL assembled from parts; every href/src/srcset candidate/poster outside placeholders and every ContentImages entry is traced to its origin by a unique token and compared with the expected absolute or pass-through value.",
  "note": _T + " <base href> is never generated.", "ref": "DESIGN.md 4/C06",
 },
 "C07": {
  "technique": "property-based testing (rapid): generated nested list/quote/pre structures and data tables; oracle = per retained token, equal nestable-ancestor chain in parsed source and distilled HTML; equal row/cell counts per retained data table",
  "level": "Exploration: thousands of generated nested structures per run, including partially retained and malformed lists; chains are computed independently on both trees.",
  "note": _T, "ref": "DESIGN.md 4/C07",
 },
 "C08": {
  "technique": "property-based testing (rapid): generated interleavings of retained/dropped text with media of every kind; oracle = media retained iff nearest preceding visible token retained, at most one promoted image/figure",
  "level": "Exploration: thousands of generated interleavings per run; the (expected, got) matrix per media kind is recorded in the evidence so that every kind is seen on both sides.",
  "note": _T + " Pages carry no title.", "ref": "DESIGN.md 4/C08",
 },
 "C09": {
  "technique": "property-based testing (rapid): generated pages; oracle = agreement relations between the views of one Result (word sequences, ordered image subsequence, word count)",
  "level": "Exploration: thousands of generated pages per run; the three agreement relations are evaluated on every result (word count only in its stated sub-domain).",
  "note": _T + " Placeholder content is excluded from the text/HTML comparison.", "ref": "DESIGN.md 4/C09",
 },
 "C01": {
  "technique": "property-based testing (rapid) over hand-built node trees, structurally mutated page trees, URL-structure pagers, mutated byte streams and a loopback ApplyForURL server, with a panic/hang/well-formedness oracle; native coverage-guided go fuzzing (same oracle) in the thorough tier",
  "level": "Exploration: tens of thousands of hand-built trees (all root kinds, odd node types, depth up to 2000) and byte streams per run across the options cross-product, each call under recover and a 30 s watchdog; the thorough tier adds coverage-guided fuzzing of ApplyForReader and of the tree generator's bit-stream on 16 workers.",
  "note": "Node graphs are acyclic and non-nil; a process-fatal crash is attributed to the case persisted just before execution; the watchdog bound (30 s) is an assumption about what counts as a hang on bounded inputs.",
  "ref": "DESIGN.md 4/C01",
 },
 "C10": {
  "technique": "stateful property-based testing (rapid): generated call histories over a pool of trees and Options values through all four entry points; invariant after every step = deep pointer+field snapshot of every tree and copy of every Options/URL unchanged",
  "level": "Exploration: hundreds to thousands of generated histories per run; the snapshot covers every node reachable from the topmost ancestor of each argument, so surroundings of a sub-element are checked too; ApplyForURL runs against a loopback server.",
  "note": "ApplyForURL only against a loopback httptest server; pages come from the DocModel/PagerModel grammars.", "ref": "DESIGN.md 4/C10",
 },
 "C11": {
  "technique": "stateful property-based testing (rapid): repeated runs and generated call histories over document/option pools; oracle = every result equals the first result of its (document, options) pair; differential between Apply on the harness's reference parse, ApplyForReader and ApplyForFile (valid UTF-8 documents; documents in a legacy encoding are compared between runs only); metamorphic renaming invariance against state kept from earlier calls; differential between fresh processes for state left by the first call of a process",
  "level": "Exploration: hundreds to thousands of pools per run, each pair executed >=8 times plus an interleaved history; map-iteration orders are sampled by repetition.",
  "note": "A two-way map-order choice escapes one evaluation with probability 2^-7 at worst; there is no control over the runtime's map iteration order.", "ref": "DESIGN.md 4/C11",
 },
 "C12": {
  "technique": "property-based testing (rapid) of generated concurrent workloads under the Go race detector; oracle = no race report and each concurrent result equals its sequential result",
  "level": "Exploration: tens to thousands of generated workloads per run with heavy sharing of trees, Options and URLs under a -race build, Apply on shared trees mixed with ApplyForReader on shared bytes (incl. bytes in a legacy encoding); schedules are sampled.",
  "note": "Happens-before race detection reports a conflicting pair whenever both accesses execute in a run; defects that need a specific interleaving without a data race are out of reach.", "ref": "DESIGN.md 4/C12",
 },
 "C13": {
  "technique": "property-based testing (rapid) of generated pages with an exhaustive loop over the option space per page; oracle = metamorphic equalities between configurations",
  "level": "Exploration over pages, exhaustive over the 2 x 2 x 2 x 32 configurations (plus nil options) for each page.",
  "note": "Results are compared only between runs with the same page URL.", "ref": "DESIGN.md 4/C13",
 },
 "C16": {
  "technique": "property-based testing (rapid): generated pagers mixing pattern links with placeholder, off-site, look-alike, userinfo, other-scheme and malformed anchors; oracle = validity predicate on PaginationInfo (http(s), same host, target of a document anchor); thorough tier adds coverage-guided go fuzzing of the generator's bit-stream (rapid.MakeFuzz, same oracle)",
  "level": "Exploration: tens of thousands of generated pagers per run over 15 URL families (incl. percent-escaped ones, a query ending in a slash and a directory-is-page-one family) and both algorithms.",
  "note": "Anchor targets are resolved by the harness with net/url; page URLs are http(s).", "ref": "DESIGN.md 4/C16",
 },
 "C17": {
  "technique": "exhaustive enumeration of conventional pagers (N, k, URL family, markup) with expected next/prev links known by construction",
  "level": "Exploration, exhaustive over the stated finite product in the thorough tier (quick: a seed-rotated slice with all N,k cells and all families).",
  "note": "Domain restricted to one-pattern pagers with neutral URL words, neutral container names and plain Prev/Next labels, as the property states; a sub-product renders the numbered links with a non-displayed label.", "ref": "DESIGN.md 4/C17",
 },
 "C14": {
  "technique": "property-based testing (rapid): structured markup specifications rendered as a full page and three single-source pages; oracles = metamorphic precedence fold of the single-source results plus by-construction reference for OpenGraph qualification, opt-out and per-source pins; thorough tier adds coverage-guided go fuzzing of the generator's bit-stream (rapid.MakeFuzz, same oracle)",
  "level": "Exploration: thousands of generated specifications per run (four pages each) over present/absent/partial OpenGraph, schema.org and IE Reading View markup in drawn interleavings.",
  "note": "The fold oracle trusts that the three sources do not read each other's markup (the renderings are built so); og:type stands anywhere among the OpenGraph properties; property spellings are the ones the parsers document (lower-case prefixes, http://schema.org types).", "ref": "DESIGN.md 4/C14",
 },
 "C15": {
  "technique": "property-based testing (rapid): <title> strings from a grammar with headings and markup titles; oracle = membership of Title in {markup title, contiguous part of <title>, first h1}, exactness clause, and a control/treatment pair for title repetition; thorough tier adds coverage-guided go fuzzing of the generator's bit-stream (rapid.MakeFuzz, same oracle)",
  "level": "Exploration: thousands of generated titles per run over lengths, 15 separators, hierarchy forms, h1/h2 relations and markup titles; the repetition clause is decided by a metamorphic pair that differs in one word.",
  "note": "Title words are unique tokens; headings are generated without the library's line-break marker and without punctuation-leading words after white space (InnerText limitation, DESIGN 6.2).", "ref": "DESIGN.md 4/C15",
 },
 "C18": {
  "technique": "exhaustive enumeration of rule-relevant table feature vectors against a decision list written from the property text (reference model), plus placement invariance and an API-level sample",
  "level": "Exploration, exhaustive over the 13,471,920-vector product in the thorough tier (quick: a seed-rotated hash slice), 6 placements per vector.",
  "note": "Features are computed from the parsed table by their definition; the internal classifier verdict is the observation point the property names.", "ref": "DESIGN.md 4/C18",
 },
 "C19": {
  "technique": "property-based testing (rapid): embed sources built from hosts whose allow-list status is known by construction; oracle = every placeholder traces to an allow-listed true host with the constructed type and id, no frame survives outside placeholders; thorough tier adds coverage-guided go fuzzing of the generator's bit-stream (rapid.MakeFuzz, same oracle)",
  "level": "Exploration: tens of thousands of generated pages per run over 36 host forms x schemes x path shapes x 5 tag kinds.",
  "note": "Only the 'only if' direction of acceptance is asserted.", "ref": "DESIGN.md 4/C19",
 },
 "C20": {
  "technique": "property-based testing (rapid): metamorphic triple (page, page with marked subtrees deleted, page with markers renamed); oracle = R(D)=R(D_del) if that yields >=500 words else R(D)=R(D_ren)",
  "level": "Exploration: thousands of generated triples per run on both sides of the 500-word threshold, incl. exactly 499/500.",
  "note": "Marker vocabulary restricted to words no other heuristic reads; elements whose class/id holds an unlikely keyword together with a rescue keyword are no marked subtrees (both reference pages carry them with neutral names); Title, MarkupInfo and PaginationInfo are not compared.", "ref": "DESIGN.md 4/C20",
 },
}
