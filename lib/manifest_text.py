NOTES = "All checks are property-based tests (rapid) or exhaustive enumerations over generated inputs with explicit oracles; see DESIGN.md. Exit 2 from a check means inconclusive (build failure / time budget), never a violation."

NOT_APPLICABLE = []

_T = "Trusts the harness's own source walker and golang.org/x/net/html parsing of the generated page; ASCII word tokens only; bounded page size."

TEXT = {
 "C02": {
  "technique": "property-based testing (rapid): generated pages with unique word tokens; oracle = subset / no-duplicate / order-preserving relation between source DOM and both output views",
  "level": "Exploration: thousands of generated article pages per run; every output token of Text and of the HTML view is checked to come from visible source text, once, in source order. Random search cannot show absence; it reaches all block kinds of the grammar with measured frequencies.",
  "note": _T, "ref": "DESIGN.md 4/C02",
 },
 "C03": {
  "technique": "property-based testing (rapid): generated paragraphs mixing the inline kinds the property names; oracle = per simple <p> of the parsed source, all visible tokens in Text or none",
  "level": "Exploration: thousands of generated pages, every simple paragraph (by the property's definition, decided on the parsed DOM) is checked for all-or-nothing retention, in body, list items, quotes, layout and data cells.",
  "note": _T, "ref": "DESIGN.md 4/C03",
 },
 "C04": {
  "technique": "property-based testing (rapid): generated pages with class-A/class-B carriers at every placement; oracle = carrier tokens absent from Text and from serialised HTML outside placeholders",
  "level": "Exploration: thousands of generated pages per run with carriers at every placement the property lists; the oracle searches both views (text tokens, attribute values, script bodies, comments) for carrier tokens.",
  "note": _T + " Only the hiding spellings the property names are generated.", "ref": "DESIGN.md 4/C04",
 },
 "C05": {
  "technique": "property-based testing (rapid): generated pages with forbidden attributes on any element and script/style inside wholesale-cloned subtrees; oracle = structural scan of Result.Node",
  "level": "Exploration: thousands of generated pages per run; every element and attribute of the distilled tree is scanned for script/style elements, on* handlers, id/class/style/data-* attributes (placeholder wrapper markers excepted).",
  "note": _T, "ref": "DESIGN.md 4/C05",
 },
}
