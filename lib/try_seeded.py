#!/usr/bin/env python3
"""usage: lib/try_seeded.py <agent-out-dir> <property-id> <A|B> [extra property ids to run too]
Confirms a sub-agent's change in a scratch copy of /repo (suite passes with it, demo fails with it and
passes without it), runs the property's quick check against the patched copy, and files the change
under /verif/seeded/<id>-<X>/ with what was run."""
import json, os, shutil, subprocess, sys, tempfile

VERIF = os.path.dirname(os.path.dirname(os.path.abspath(__file__)))
out, pid, x = sys.argv[1], sys.argv[2], sys.argv[3]
also = sys.argv[4:]
src = os.path.join(out, x)
meta = json.load(open(os.path.join(src, "meta.json")))
env = dict(os.environ, GOFLAGS="-mod=mod", GOPROXY="off", GOSUMDB="off", GOTOOLCHAIN="local")
tmp = tempfile.mkdtemp(prefix="seeded.")
repo = os.path.join(tmp, "repo")
res = {"property": pid, "mutant": x}
try:
    shutil.copytree("/repo", repo, ignore=shutil.ignore_patterns(".git"))
    subprocess.run("git init -q && git add -A && git -c user.name=x -c user.email=x@x commit -qm base", shell=True, cwd=repo, check=True)
    demo_dir = os.path.join(repo, meta.get("demo_pkg_dir", ".") or ".")
    demo_dst = os.path.join(demo_dir, "zz_seeded_demo_test.go")
    shutil.copy(os.path.join(src, "demo_test.go"), demo_dst)
    run = lambda cmd, cwd=repo: subprocess.run(cmd, shell=True, cwd=cwd, env=env, stdout=subprocess.PIPE, stderr=subprocess.STDOUT, text=True)
    pkg = "./" + os.path.relpath(demo_dir, repo)
    r0 = run("go test -vet=off -count=1 %s" % pkg)
    res["demo_passes_without_patch"] = r0.returncode == 0
    os.remove(demo_dst)
    ap = run("git apply --whitespace=nowarn %s" % os.path.join(src, "patch.diff"))
    res["patch_applies"] = ap.returncode == 0
    if ap.returncode != 0:
        res["patch_error"] = ap.stdout[-400:]
    else:
        b = run("go build ./...")
        res["builds"] = b.returncode == 0
        s = run("go test -vet=off -count=1 ./...")
        res["suite_passes_with_patch"] = s.returncode == 0
        shutil.copy(os.path.join(src, "demo_test.go"), demo_dst)
        r1 = run("go test -vet=off -count=1 %s" % pkg)
        res["demo_fails_with_patch"] = r1.returncode != 0
        os.remove(demo_dst)
        res["checks"] = {}
        for p in [pid] + also:
            c = subprocess.run([os.path.join(VERIF, "check"), p, "--repo", repo, "--out", os.path.join(tmp, "out")],
                               env=dict(os.environ, VERIF_NO_REGRESS="1"), stdout=subprocess.PIPE, stderr=subprocess.STDOUT, text=True)
            sig = [l for l in c.stdout.splitlines() if l.startswith("violation")]
            res["checks"][p] = {"exit": c.returncode, "verdict": {0: "MISSED", 1: "CAUGHT"}.get(c.returncode, "INCONCLUSIVE"), "first_violation": (sig[0][:300] if sig else "")}
    confirmed = res.get("demo_passes_without_patch") and res.get("suite_passes_with_patch") and res.get("demo_fails_with_patch")
    res["confirmed"] = bool(confirmed)
    if confirmed:
        dst = os.path.join(VERIF, "seeded", "%s-%s%s" % (pid, os.environ.get("SEED_TAG", ""), x))
        os.makedirs(dst, exist_ok=True)
        shutil.copy(os.path.join(src, "patch.diff"), dst)
        shutil.copy(os.path.join(src, "demo_test.go"), os.path.join(dst, "demo_test.go.txt"))
        m = {"breaks_property": pid, "summary": meta.get("summary"), "needs_to_manifest": meta.get("needs"),
             "demo_pkg_dir": meta.get("demo_pkg_dir"), "demo_run": meta.get("demo_run"),
             "origin": "independent sub-agent given only the property text and a scratch worktree",
             "confirmed_by": "lib/try_seeded.py in a scratch copy of /repo: existing suite passes with the patch; demo fails with it and passes without it",
             "checks_run": res["checks"]}
        json.dump(m, open(os.path.join(dst, "meta.json"), "w"), indent=1)
finally:
    shutil.rmtree(tmp, ignore_errors=True)
    # point the harness back at /repo
    subprocess.run([os.path.join(VERIF, "check"), "C18", "--out", tempfile.gettempdir() + "/seeded-restore"], stdout=subprocess.DEVNULL, stderr=subprocess.DEVNULL)
    shutil.rmtree(tempfile.gettempdir() + "/seeded-restore", ignore_errors=True)
print(json.dumps(res, indent=1))
