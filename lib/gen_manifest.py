#!/usr/bin/env python3
"""Writes /verif/MANIFEST.json from lib/checks_config.py and lib/manifest_text.py."""
import json, os, sys
here = os.path.dirname(os.path.abspath(__file__))
sys.path.insert(0, here)
from checks_config import CHECKS
from manifest_text import TEXT, NOT_APPLICABLE, NOTES

checks = []
for pid in sorted(CHECKS):
    t = TEXT[pid]
    checks.append({
        "property_id": pid,
        "quick_cmd": "./check %s --tier quick" % pid,
        "thorough_cmd": "./check %s --tier thorough" % pid,
        "evidence_file": "/verif/evidence/%s.json" % pid,
        "replay_cmd_template": "./check %s --replay {path}" % pid,
        "engine": "rapid-harness",
        "level_claimed": {"category": "exploration", "text": t["level"], "design_ref": t["ref"]},
        "level_note": t["note"],
        "technique": t["technique"],
    })
m = {
    "version": 1,
    "setup_cmd": "./setup.sh",
    "hooks": {
        "guard": "verif",
        "enable": "no hooks are needed: the harness module path is nested under the target's module path, so it may import internal/ packages; checks build /repo's working tree through a replace directive",
        "baseline_off_cmd": "cd /repo && GOFLAGS=-mod=mod GOPROXY=off GOSUMDB=off go test -vet=off -count=1 ./...",
        "source_commits": [],
        "add_only": True,
    },
    "engines": [{
        "name": "rapid-harness", "path": "/verif/harness",
        "serves_properties": sorted(CHECKS),
        "kind_free_text": "Go test binary: pgregory.net/rapid v1.3.0 generators + explicit oracles per property, exhaustive enumerators for C17/C18, native go fuzzing for C01 (thorough); driven and sharded by /verif/check",
    }],
    "checks": checks,
    "notes": NOTES,
    "not_applicable": NOT_APPLICABLE + [{"property_id": "C%02d" % i, "reason": "check not built yet (work in progress, see DESIGN.md)"}
                                        for i in range(1, 21) if "C%02d" % i not in CHECKS and "C%02d" % i not in [n["property_id"] for n in NOT_APPLICABLE]],
}
json.dump(m, open(os.path.join(here, "..", "MANIFEST.json"), "w"), indent=1)
print("MANIFEST.json written with", len(checks), "checks")
