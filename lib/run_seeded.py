#!/usr/bin/env python3
"""usage: lib/run_seeded.py [id ...]   (default: every directory under /verif/seeded)
Re-runs the quick check(s) against each filed change (patch applied to a scratch copy of /repo, never to
/repo itself), with the regression replay tier switched off so that only the generators count, and
updates meta.json. Prints one line per change."""
import json, os, shutil, subprocess, sys, tempfile, time

VERIF = os.path.dirname(os.path.dirname(os.path.abspath(__file__)))
ids = sys.argv[1:] or sorted(os.listdir(os.path.join(VERIF, "seeded")))
env = dict(os.environ, GOFLAGS="-mod=mod", GOPROXY="off", GOSUMDB="off", GOTOOLCHAIN="local")
for sid in ids:
    d = os.path.join(VERIF, "seeded", sid)
    if not os.path.exists(os.path.join(d, "meta.json")):
        continue
    meta = json.load(open(os.path.join(d, "meta.json")))
    tmp = tempfile.mkdtemp(prefix="seeded.")
    repo = os.path.join(tmp, "repo")
    try:
        shutil.copytree("/repo", repo, ignore=shutil.ignore_patterns(".git"))
        subprocess.run("git init -q && git add -A && git -c user.name=x -c user.email=x@x commit -qm base", shell=True, cwd=repo, check=True)
        ap = subprocess.run("git apply --whitespace=nowarn %s" % os.path.join(d, "patch.diff"), shell=True, cwd=repo, env=env, stdout=subprocess.PIPE, stderr=subprocess.STDOUT, text=True)
        if ap.returncode != 0:
            print("%-8s PATCH-NO-LONGER-APPLIES %s" % (sid, ap.stdout[-200:]))
            continue
        s = subprocess.run("go build ./... && go test -vet=off -count=1 ./...", shell=True, cwd=repo, env=env, stdout=subprocess.PIPE, stderr=subprocess.STDOUT, text=True)
        suite_ok = s.returncode == 0
        props = [meta["breaks_property"]] + [p for p in meta.get("also_check", [])]
        results = {}
        for p in props:
            c = subprocess.run([os.path.join(VERIF, "check"), p, "--repo", repo, "--out", os.path.join(tmp, "out")],
                               env=dict(os.environ, VERIF_NO_REGRESS="1"), stdout=subprocess.PIPE, stderr=subprocess.STDOUT, text=True)
            sig = [l for l in c.stdout.splitlines() if l.startswith("violation")]
            results[p] = {"exit": c.returncode, "verdict": {0: "MISSED", 1: "CAUGHT"}.get(c.returncode, "INCONCLUSIVE"), "first_violation": (sig[0][:300] if sig else "")}
        prev = meta.get("checks_run")
        if prev and prev != results:
            meta.setdefault("earlier_runs", []).append(prev)
        meta["checks_run"] = results
        meta["suite_passes_with_patch"] = suite_ok
        meta["last_run"] = time.strftime("%Y-%m-%d %H:%M")
        json.dump(meta, open(os.path.join(d, "meta.json"), "w"), indent=1)
        print("%-8s suite=%s %s" % (sid, "pass" if suite_ok else "FAIL", " ".join("%s:%s" % (p, r["verdict"]) for p, r in results.items())))
    finally:
        shutil.rmtree(tmp, ignore_errors=True)
subprocess.run([os.path.join(VERIF, "check"), "C18", "--out", "/tmp/seeded-restore"], stdout=subprocess.DEVNULL, stderr=subprocess.DEVNULL)
shutil.rmtree("/tmp/seeded-restore", ignore_errors=True)
