#!/bin/bash
# usage: lib/r7.sh <ID> [extra property ids]   evaluates /tmp/seed/out7-<ID>/{A,B} (seventh round of independent changes)
p=$1; shift
for x in A B; do SEED_TAG=R7- python3 /verif/lib/try_seeded.py /tmp/seed/out7-$p $p $x "$@" 2>&1 | python3 -c "
import json,sys
try:
    r=json.load(sys.stdin)
    print(r['property'],'R7-'+r['mutant'],'confirmed' if r.get('confirmed') else 'NOT-CONFIRMED '+json.dumps({k:v for k,v in r.items() if k!='checks'}), {k:(v['verdict'],v['first_violation'][:150]) for k,v in r.get('checks',{}).items()})
except Exception as e:
    print('ERROR',e)
"; done
