package props

import (
	"encoding/json"
	"fmt"
	"os"
	"os/exec"
	"path/filepath"
	"strings"
	"testing"

	"pgregory.net/rapid"
)

// C11, fresh-process differential: a document distilled as the very first call of a fresh process
// must give the same result as the same document distilled after another document in another fresh
// process. This is the oracle for state that the *first* call of a process leaves behind (lazily
// initialised tables, caches keyed by tag name, ...), which a long-lived test process cannot see
// because its state was settled by thousands of earlier cases.

func init() { register("C11F", checkC11Fresh) }

type c11FreshExtra struct {
	First  c11Doc `json:"first"`  // distilled first in one of the two processes
	Second c11Doc `json:"second"` // the document under comparison
}

var oddSpellings = []string{` style="DISPLAY:NONE"`, ` style="Display: None;"`, ` style="display:none"`, ` style="VISIBILITY:HIDDEN"`, ` hidden`, ` HIDDEN`,
	` aria-hidden="true"`, ` style="DISPLAY: inline"`, ` style="display:BLOCK"`, ` style="color:red"`, ` class="SIDEBAR"`, ` ID="Comment"`, ` role="NAVIGATION"`, ` dir="RTL"`}

func genC11Fresh(t *rapid.T) *Case {
	// first document: every element may carry an odd spelling of a hiding / display attribute, so
	// that it is likely the first of its tag the process ever sees
	p := carrierProfile()
	p.Attr = func(g *G, tag string) string {
		if g.intn(0, 2, "odd") == 0 {
			return oddSpellings[g.intn(0, len(oddSpellings)-1, "oddattr")]
		}
		return ""
	}
	p.MaxTop = 6
	first := c11Doc{HTML: newG(t, p).page(), Opts: genOpts(t, 50), Kind: "odd-first"}
	if rapid.IntRange(0, 3).Draw(t, "firstkind") == 0 {
		first = genC11Doc(t)
	}
	second := genC11Doc(t)
	if rapid.IntRange(0, 2).Draw(t, "secondkind") > 0 {
		second = c11Doc{HTML: newG(t, carrierProfile()).page(), Opts: genOpts(t, 50), Kind: "article"}
	}
	c := &Case{Property: "C11F", Kind: "fresh-process"}
	c.SetExtra(c11FreshExtra{First: first, Second: second})
	return c
}

func runChild(pages []c11Doc) (string, error) {
	dir := os.Getenv("VERIF_SCRATCH")
	if dir == "" {
		dir = os.TempDir()
	}
	f := filepath.Join(dir, fmt.Sprintf("child-%d.json", os.Getpid()))
	b, _ := json.Marshal(pages)
	if err := os.WriteFile(f, b, 0o644); err != nil {
		return "", err
	}
	defer os.Remove(f)
	cmd := exec.Command(os.Args[0], "-test.run", "^$")
	cmd.Env = append(os.Environ(), "VERIF_CHILD_CASE="+f, "VERIF_STATS=", "GORACE=")
	out, err := cmd.Output()
	if err != nil {
		return "", fmt.Errorf("child failed: %v", err)
	}
	s := string(out)
	i, j := strings.Index(s, "CHILD-RESULT-BEGIN\n"), strings.LastIndex(s, "\nCHILD-RESULT-END")
	if i < 0 || j < 0 {
		return "", fmt.Errorf("child printed no result: %s", truncate(s, 200))
	}
	return s[i+len("CHILD-RESULT-BEGIN\n") : j], nil
}

func checkC11Fresh(c *Case) (*Violation, caseInfo) {
	var info caseInfo
	var ex c11FreshExtra
	c.GetExtra(&ex)
	alone, err1 := runChild([]c11Doc{ex.Second})
	after, err2 := runChild([]c11Doc{ex.First, ex.Second})
	if err1 != nil || err2 != nil {
		info.Skip = "child-process-failed"
		return nil, info
	}
	if alone == "panic" || after == "panic" {
		info.Skip = "apply-panicked"
		return nil, info
	}
	info.Classes = append(info.Classes, "first:"+ex.First.Kind, "second:"+ex.Second.Kind)
	info.NonTrivial = strings.Contains(alone, `"WordCount":`) && !strings.Contains(alone, `"WordCount":0,`)
	if alone != after {
		return violationf("C11 first-call-of-process-leaks fields="+diffFields(alone, after),
			"a document distilled as the first call of a fresh process differs from the same document distilled after another one (also in a fresh process):\n%s", diffCanon(alone, after)), info
	}
	return nil, info
}

func TestC11Fresh(t *testing.T) { runProp(t, genC11Fresh, checkC11Fresh) }
