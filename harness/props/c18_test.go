package props

import (
	"fmt"
	"os"
	"strconv"
	"strings"
	"testing"

	"github.com/markusmobius/go-domdistiller/internal/tableclass"
	"golang.org/x/net/html"
)

// C18 — tables are classified by the documented rule cascade (enumerated).

func init() { register("C18", checkC18) }

type c18Vec struct {
	Editable, Role, DescRole, Datatable, Nested, Shape, Header, Cell, Summary, Object int
}

var (
	c18Editable  = []string{"no", "parent", "grandparent", "parent-empty-value", "parent-plaintext-only", "parent-false"}
	c18Role      = []string{"", "presentation", "grid", "treegrid", "main", "note"}
	c18DescRole  = []string{"", "row", "gridcell", "navigation"}
	c18Datatable = []string{"", "0", "1"}
	c18Nested    = []string{"no", "yes", "empty"}
	c18Shapes    = [][]int{{3}, {1, 1, 1}, {2, 2}, {4, 4}, {5, 5}, {2, 2, 2, 2, 2}, {4, 4, 3}, {4, 4, 4}, rowsOf(19, 2), rowsOf(20, 2), append(rowsOf(20, 1), 2, 2)}
	c18ShapeName = []string{"1x3", "3x1", "2x2", "2x4", "2x5", "5x2(10 cells)", "ragged 4+4+3(11 cells)", "3x4", "19x2", "20x2", "ragged 20x1 then 2x2"}
	c18Header    = []string{"none", "caption", "thead", "tfoot", "colgroup", "col", "th", "th-column", "th-row-empty-corner"}
	c18Cell      = []string{"none", "abbr-attr", "headers-attr", "scope-attr", "lone-abbr-child", "scope-attr-without-value", "abbr-attr-empty", "lone-abbr-child-with-text"}
	c18Summary   = []string{"no", "yes", "yes-empty"}
	c18Object    = []string{"none", "embed", "object", "applet", "iframe"}
)

func rowsOf(r, c int) []int {
	out := make([]int, r)
	for i := range out {
		out[i] = c
	}
	return out
}

func c18Dims() []int {
	return []int{len(c18Editable), len(c18Role), len(c18DescRole), len(c18Datatable), len(c18Nested), len(c18Shapes), len(c18Header), len(c18Cell), len(c18Summary), len(c18Object)}
}

func c18Total() int {
	n := 1
	for _, d := range c18Dims() {
		n *= d
	}
	return n
}

func c18Decode(idx int) c18Vec {
	d := c18Dims()
	v := make([]int, len(d))
	for i := range d {
		v[i] = idx % d[i]
		idx /= d[i]
	}
	return c18Vec{v[0], v[1], v[2], v[3], v[4], v[5], v[6], v[7], v[8], v[9]}
}

func c18Encode(v c18Vec) int {
	d := c18Dims()
	vals := []int{v.Editable, v.Role, v.DescRole, v.Datatable, v.Nested, v.Shape, v.Header, v.Cell, v.Summary, v.Object}
	idx, mul := 0, 1
	for i := range d {
		idx += vals[i] * mul
		mul *= d[i]
	}
	return idx
}

func (v c18Vec) String() string {
	return fmt.Sprintf("editable=%s role=%q descendant-role=%q datatable=%q nested=%s shape=%s header=%s cell=%s summary=%s object=%s",
		c18Editable[v.Editable], c18Role[v.Role], c18DescRole[v.DescRole], c18Datatable[v.Datatable], c18Nested[v.Nested], c18ShapeName[v.Shape],
		c18Header[v.Header], c18Cell[v.Cell], c18Summary[v.Summary], c18Object[v.Object])
}

// renderTable renders the <table> element of a vector; every cell carries words (w<N>).
func (v c18Vec) renderTable() string { return v.renderTableWith("w", "T") }

func c18HiddenStyle() string {
	if c18HideFeatures {
		return ` style="display:none"`
	}
	return ""
}

// otherIndex derives a second vector (used as the table that precedes this one).
func (v c18Vec) otherIndex() int {
	d := c18Dims()
	vals := []int{v.Editable, v.Role, v.DescRole, v.Datatable, v.Nested, v.Shape, v.Header, v.Cell, v.Summary, v.Object}
	idx, mul := 0, 1
	for i := range d {
		idx += ((vals[i]*7 + 3 + i) % d[i]) * mul
		mul *= d[i]
	}
	return idx
}

// c18HideFeatures: when set, rule-relevant descendants are rendered invisible (the embedded object
// gets display:none, all rows after the second get the hidden attribute). The documented rules speak
// about the table's structure, not about what is visible, so the verdict must not change.
var c18HideFeatures = false

func (v c18Vec) renderTableWith(prefix, id string) string {
	var b strings.Builder
	w := 0
	word := func() string { w++; return prefix + strconv.Itoa(w) + "x" }
	b.WriteString(`<table id="` + id + `"`)
	if r := c18Role[v.Role]; r != "" {
		b.WriteString(` role="` + r + `"`)
	}
	if d := c18Datatable[v.Datatable]; d != "" {
		b.WriteString(` datatable="` + d + `"`)
	}
	switch v.Summary {
	case 1:
		b.WriteString(` summary="some summary"`)
	case 2:
		b.WriteString(` summary=""`) // the attribute is there; the rule asks for nothing more
	}
	b.WriteString(">")
	shape := c18Shapes[v.Shape]
	width := 0
	for _, c := range shape {
		if c > width {
			width = c
		}
	}
	switch c18Header[v.Header] {
	case "caption":
		b.WriteString("<caption>" + word() + " " + word() + "</caption>")
	case "colgroup":
		b.WriteString("<colgroup><col><col></colgroup>")
	case "col":
		b.WriteString("<col>")
	case "thead":
		b.WriteString("<thead><tr>")
		for i := 0; i < width; i++ {
			b.WriteString("<td>" + word() + "</td>")
		}
		b.WriteString("</tr></thead>")
	}
	b.WriteString("<tbody>")
	if h := c18Header[v.Header]; h == "th" || h == "th-row-empty-corner" {
		b.WriteString("<tr>")
		for i := 0; i < width; i++ {
			if i == 0 && h == "th-row-empty-corner" && width > 1 {
				b.WriteString("<th></th>") // the empty corner cell of a table with row and column headers
				continue
			}
			b.WriteString("<th>" + word() + "</th>")
		}
		b.WriteString("</tr>")
	}
	for ri, cols := range shape {
		b.WriteString("<tr")
		if ri == 0 && c18DescRole[v.DescRole] == "row" {
			b.WriteString(` role="row"`)
		}
		if c18HideFeatures && ri >= 2 {
			b.WriteString(` hidden`)
		}
		b.WriteString(">")
		for ci := 0; ci < cols; ci++ {
			first := ri == 0 && ci == 0
			last := ri == len(shape)-1 && ci == cols-1
			cellTag := "td"
			if ci == 0 && c18Header[v.Header] == "th-column" {
				cellTag = "th" // a header column: the first cell of every row is a <th>
			}
			b.WriteString("<" + cellTag)
			if first {
				switch c18Cell[v.Cell] {
				case "abbr-attr":
					b.WriteString(` abbr="a"`)
				case "headers-attr":
					b.WriteString(` headers="h"`)
				case "scope-attr":
					b.WriteString(` scope="col"`)
				case "scope-attr-without-value":
					b.WriteString(` scope`)
				case "abbr-attr-empty":
					b.WriteString(` abbr=""`)
				}
				switch c18DescRole[v.DescRole] {
				case "gridcell":
					b.WriteString(` role="gridcell"`)
				case "navigation":
					b.WriteString(` role="navigation"`)
				}
			}
			b.WriteString(">")
			switch {
			case first && c18Cell[v.Cell] == "lone-abbr-child":
				b.WriteString("<abbr>" + word() + "</abbr>")
			case first && c18Cell[v.Cell] == "lone-abbr-child-with-text":
				b.WriteString("\n  <abbr>" + word() + "</abbr> (" + word() + ")\n") // the only child *element*; text beside it does not count
			case last && (v.Nested != 0 || v.Object != 0) && !(first && strings.HasPrefix(c18Cell[v.Cell], "lone-abbr-child")):
				b.WriteString(word())
				switch v.Nested {
				case 1:
					b.WriteString("<table><tr><td>" + word() + "</td></tr></table>")
				case 2:
					b.WriteString(`<table id="placeholder"></table>`) // a nested table without any element inside
				}
				switch c18Object[v.Object] {
				case "embed":
					b.WriteString(`<embed src="x.swf"` + c18HiddenStyle() + `>`)
				case "object":
					b.WriteString(`<object data="x.swf"` + c18HiddenStyle() + `></object>`)
				case "applet":
					b.WriteString(`<applet code="x.class"` + c18HiddenStyle() + `></applet>`)
				case "iframe":
					b.WriteString(`<iframe src="http://ads.example.net/x"` + c18HiddenStyle() + `></iframe>`)
				}
			default:
				b.WriteString(word())
			}
			b.WriteString("</" + cellTag + ">")
		}
		b.WriteString("</tr>")
	}
	b.WriteString("</tbody>")
	if c18Header[v.Header] == "tfoot" {
		b.WriteString("<tfoot><tr>")
		for i := 0; i < width; i++ {
			b.WriteString("<td>" + word() + "</td>")
		}
		b.WriteString("</tr></tfoot>")
	}
	b.WriteString("</table>")
	return b.String()
}

// single-cell tables put nested table / object into the first cell as well
func (v c18Vec) single() bool { s := c18Shapes[v.Shape]; return len(s) == 1 && s[0] == 1 }

// c18Predecessor is a plain 3x4 table (12 cells, no header structure) whose first cell carries a scope
// attribute and whose last cell holds an <object>: it runs through the cell-level rules of the
// cascade, so anything a classifier instance remembered from it would show on the next table.
const c18Predecessor = `<table id="T2"><tbody><tr><td scope="col">u1x</td><td>u2x</td><td>u3x</td><td>u4x</td></tr><tr><td>u5x</td><td>u6x</td><td>u7x</td><td>u8x</td></tr>` +
	`<tr><td>u9x</td><td>u10x</td><td>u11x</td><td>u12x<object data="x.swf"></object></td></tr></tbody></table>`

const c18Para = "<p>alpha beta gamma delta epsilon zeta eta theta iota kappa lambda mu nu xi omicron pi rho sigma tau upsilon phi chi psi omega " +
	"alpha beta gamma delta epsilon zeta eta theta iota kappa lambda mu nu xi omicron pi rho sigma tau upsilon.</p>"

func (v c18Vec) wrapEditable(tbl string) string {
	switch c18Editable[v.Editable] {
	case "parent":
		return `<div contenteditable="true">` + tbl + `</div>`
	case "grandparent":
		return `<div contenteditable="true"><div>` + tbl + `</div></div>`
	case "parent-empty-value":
		return `<div contenteditable>` + tbl + `</div>`
	case "parent-plaintext-only":
		return `<div contenteditable="plaintext-only">` + tbl + `</div>`
	case "parent-false":
		return `<div contenteditable="false">` + tbl + `</div>`
	}
	return tbl
}

func (v c18Vec) page(placement int) string {
	tbl := v.wrapEditable(v.renderTable())
	body := ""
	switch placement {
	case 0:
		body = tbl
	case 1:
		body = "<div><section><div>" + tbl + "</div></section></div>"
	case 2:
		body = c18Para + tbl
	case 3:
		body = "<table><tr><td>" + tbl + "</td></tr></table>"
	case 4: // an editable area (if any) above an enclosing layout table
		body = v.wrapEditable("<table><tr><td>" + v.renderTable() + "</td></tr></table>")
	case 5: // after another table that was classified by the same classifier instance
		body = c18Predecessor + tbl
	}
	return "<html><head></head><body>" + body + "</body></html>"
}

// ---- reference: the decision list of the property text, on features computed by definition ----

type c18Feat struct {
	editable, nested                   bool
	tableRole                          string
	descRole                           bool
	datatable0                         bool
	rows, cols, cells                  int
	headerStruct, cellFeature, summary bool
	object                             bool
}

func c18Features(tbl *html.Node) c18Feat {
	var f c18Feat
	for p := tbl.Parent; p != nil; p = p.Parent {
		// the contenteditable attribute: the empty string, "true" and "plaintext-only" make an element editable
		if ce, ok := attr(p, "contenteditable"); ok {
			switch strings.ToLower(ce) {
			case "", "true", "plaintext-only":
				f.editable = true
			}
		}
	}
	f.tableRole = strings.ToLower(attrVal(tbl, "role"))
	own := func(n *html.Node) bool { // element belongs to this table, not to a nested one
		for p := n.Parent; p != nil; p = p.Parent {
			if isElem(p, "table") {
				return p == tbl
			}
		}
		return false
	}
	landmark := map[string]bool{"application": true, "banner": true, "complementary": true, "contentinfo": true, "form": true, "main": true, "navigation": true, "search": true}
	tableDesc := map[string]bool{"gridcell": true, "columnheader": true, "row": true, "rowgroup": true, "rowheader": true}
	for _, n := range findAll(tbl, func(x *html.Node) bool { return x != tbl && x.Type == html.ElementNode }) {
		if n.Data == "table" {
			f.nested = true
		}
		if !own(n) {
			continue
		}
		r := strings.ToLower(attrVal(n, "role"))
		if landmark[r] || tableDesc[r] {
			f.descRole = true
		}
		switch n.Data {
		case "caption", "thead", "tfoot", "colgroup", "col", "th":
			f.headerStruct = true
		case "embed", "object", "applet", "iframe":
			f.object = true
		case "td":
			f.cells++
			_, a1 := attr(n, "abbr")
			_, a2 := attr(n, "headers")
			_, a3 := attr(n, "scope")
			if a1 || a2 || a3 {
				f.cellFeature = true
			}
			kids := findAll(n, func(x *html.Node) bool { return x != n && x.Type == html.ElementNode })
			if len(kids) == 1 && kids[0].Data == "abbr" {
				f.cellFeature = true
			}
		}
	}
	f.datatable0 = attrVal(tbl, "datatable") == "0"
	_, f.summary = attr(tbl, "summary")
	for _, tr := range findAll(tbl, func(x *html.Node) bool { return isElem(x, "tr") }) {
		f.rows++
		c := 0
		for _, td := range findAll(tr, func(x *html.Node) bool { return isElem(x, "td", "th") }) { // header cells are cells of the row too
			span, _ := strconv.Atoi(attrVal(td, "colspan"))
			if span == 0 {
				span = 1
			}
			c += span
		}
		if c > f.cols {
			f.cols = c
		}
	}
	return f
}

// c18Reference returns the verdict ("data"/"layout"), the number of the deciding rule and the
// set of all rules whose condition holds.
func c18Reference(f c18Feat) (string, int, []int) {
	type rule struct {
		cond    bool
		verdict string
	}
	landmark := map[string]bool{"application": true, "banner": true, "complementary": true, "contentinfo": true, "form": true, "main": true, "navigation": true, "search": true}
	rules := []rule{
		{f.editable, "layout"},                    // 1 inside an editable area
		{f.tableRole == "presentation", "layout"}, // 2
		{f.tableRole == "grid" || f.tableRole == "treegrid" || landmark[f.tableRole] || f.descRole, "data"}, // 3
		{f.datatable0, "layout"},               // 4
		{f.nested, "layout"},                   // 5
		{f.rows <= 1 || f.cols <= 1, "layout"}, // 6
		{f.headerStruct, "data"},               // 7
		{f.cellFeature, "data"},                // 8
		{f.summary, "data"},                    // 9
		{f.cols >= 5, "data"},                  // 10
		{f.rows >= 20, "data"},                 // 11
		{f.cells <= 10, "layout"},              // 12
		{f.object, "layout"},                   // 13
		{true, "data"},                         // 14 otherwise
	}
	verdict, deciding := "", 0
	var holds []int
	for i, r := range rules {
		if r.cond {
			holds = append(holds, i+1)
			if verdict == "" {
				verdict, deciding = r.verdict, i+1
			}
		}
	}
	return verdict, deciding, holds
}

type c18Extra struct {
	Index  int  `json:"index"`
	API    bool `json:"api"`
	Hidden bool `json:"hidden"`
}

func findTableT(doc *html.Node) *html.Node {
	ts := findAll(doc, func(n *html.Node) bool { return isElem(n, "table") && attrVal(n, "id") == "T" })
	if len(ts) == 0 {
		return nil
	}
	return ts[0]
}

func checkC18(c *Case) (*Violation, caseInfo) {
	var info caseInfo
	var ex c18Extra
	c.GetExtra(&ex)
	v := c18Decode(ex.Index)
	var ref string
	var deciding int
	var holds []int
	for placement := 0; placement < 6; placement++ {
		doc, err := html.Parse(strings.NewReader(v.page(placement)))
		if err != nil {
			info.Skip = "parse"
			return nil, info
		}
		tbl := findTableT(doc)
		if tbl == nil {
			info.Skip = "table-not-found"
			return nil, info
		}
		// the reference is evaluated on the features of the table where it stands (only the
		// editable-ancestor feature can differ between placements)
		pref, pdec, pholds := c18Reference(c18Features(tbl))
		if placement == 0 {
			ref, deciding, holds = pref, pdec, pholds
		} else if placement != 4 && pref != ref {
			return violationf("C18 harness-reference-unstable", "reference verdict changes with placement %d for {%s}", placement, v), info
		}
		classifier := tableclass.NewClassifier(nil)
		if placement == 5 {
			// one classifier instance sees the preceding table first, as during a distillation
			if t2 := findAll(doc, func(n *html.Node) bool { return isElem(n, "table") && attrVal(n, "id") == "T2" }); len(t2) > 0 {
				classifier.Classify(t2[0])
			}
		}
		typ, reason := classifier.Classify(tbl)
		wantRef, wantDec := ref, deciding
		if placement == 4 {
			wantRef, wantDec = pref, pdec
		}
		if got := strings.ToLower(typ.String()); got != wantRef {
			return violationf(fmt.Sprintf("C18 wrong-verdict rule=%d expected=%s placement=%d", wantDec, wantRef, placement),
				"table {%s} at placement %d is classified %s (%v) but the documented cascade gives %s by rule %d (rules whose condition holds: %v)\n%s",
				v, placement, got, reason, wantRef, wantDec, pholds, truncate(v.renderTable(), 800)), info
		}
		continue
	}
	// API level, rule-relevant descendants invisible: the verdict (and with it whether a <table> is
	// kept) must be the one of the visible variant
	if ex.Hidden && (v.Object != 0 || v.Shape >= 8) {
		c18HideFeatures = true
		page := v.page(2)
		c18HideFeatures = false
		_, out := applyHTML(page, OptSpec{})
		if !out.Panicked && out.Err == nil && out.Res != nil {
			info.Classes = append(info.Classes, "api-level-hidden-features")
			if has := tableWithWord(out.Res.Node, "w1x"); has != (ref == "data") {
				return violationf("C18 api-hidden-features-disagree expected="+ref, "table {%s} with its embedded object / rows 3.. made invisible: verdict %s but <table> kept = %v", v, ref, has), info
			}
		}
	}
	// API level: the table follows a long retained paragraph
	// (always for tables decided by the embedded-object rule: it is the one rule that depends on what
	// the converter's working copy of the page still contains)
	if ex.API || deciding == 13 {
		// two tables in one document, distilled in one call: each must be kept iff its own verdict is data
		v2 := "fixed 3x4 predecessor with a scope cell"
		d2, _ := html.Parse(strings.NewReader("<html><body>" + c18Predecessor + "</body></html>"))
		if t2 := findAll(d2, func(n *html.Node) bool { return isElem(n, "table") && attrVal(n, "id") == "T2" }); len(t2) > 0 {
			ref2, _, _ := c18Reference(c18Features(t2[0]))
			pair := "<html><head></head><body>" + c18Para + c18Predecessor + c18Para + v.wrapEditable(v.renderTable()) + c18Para + "</body></html>"
			_, po := applyHTML(pair, OptSpec{})
			if !po.Panicked && po.Err == nil && po.Res != nil {
				outHTML := render(po.Res.Node)
				has1 := strings.Contains(outHTML, "<table") && tableWithWord(po.Res.Node, "w1x")
				has2 := strings.Contains(outHTML, "<table") && tableWithWord(po.Res.Node, "u1x")
				info.Classes = append(info.Classes, "api-level-pair")
				if has1 != (ref == "data") || has2 != (ref2 == "data") {
					return violationf("C18 api-pair-disagrees", "two tables in one document: first {%s} verdict %s kept=%v; second {%s} verdict %s kept=%v", v2, ref2, has2, v, ref, has1), info
				}
			}
		}
		// an editable element that is no ancestor of the table (it is empty, and closed long before
		// the table starts) says nothing about the table
		apiPage := v.page(2)
		if ex.Index%2 == 0 || deciding == 13 {
			apiPage = strings.Replace(apiPage, "<body>", `<body><svg width="0" height="0"><symbol id="i"><path d="M0 0"/></symbol></svg><div contenteditable="true"></div><p contenteditable="true"></p>`, 1)
			info.Classes = append(info.Classes, "api-level-after-empty-editable")
		}
		_, out := applyHTML(apiPage, OptSpec{})
		if !out.Panicked && out.Err == nil && out.Res != nil {
			hasTable := countElems(out.Res.Node, "table") > 0
			info.Classes = append(info.Classes, "api-level")
			if hasTable != (ref == "data") {
				return violationf("C18 api-disagrees expected="+ref, "table {%s}: verdict %s but <table> present in distilled HTML = %v", v, ref, hasTable), info
			}
		}
	}
	opposite := false
	for _, h := range holds[1:] {
		_ = h
	}
	// >=2 rules of opposite verdict hold (the default rule excluded)
	ruleVerdict := map[int]string{1: "layout", 2: "layout", 3: "data", 4: "layout", 5: "layout", 6: "layout", 7: "data", 8: "data", 9: "data", 10: "data", 11: "data", 12: "layout", 13: "layout"}
	seen := map[string]bool{}
	for _, h := range holds {
		if rv, ok := ruleVerdict[h]; ok {
			seen[rv] = true
		}
	}
	opposite = seen["layout"] && seen["data"]
	threshold := v.Shape >= 3 // 2x4, 2x5, 5x2 (10 cells), 4+4+3 (11 cells), 3x4, 19x2, 20x2
	info.Classes = append(info.Classes, fmt.Sprintf("deciding-rule:%02d->%s", deciding, ref))
	info.NonTrivial = opposite || threshold
	info.Note = v.String() + " => " + ref + " by rule " + strconv.Itoa(deciding) + "; table: " + truncate(v.renderTable(), 400)
	return nil, info
}

func TestC18(t *testing.T) {
	shard, nshards := shardSpec()
	thorough := os.Getenv("VERIF_TIER") == "thorough"
	seed := envSeed()
	total := c18Total()
	n := 0
	// a fixed core that every run visits, whatever its slice: the plain tables that only the late rules
	// decide (cell count, embedded object, default), with every kind of embedded object
	if shard == 0 {
		for _, shape := range []int{3, 5, 6, 7} { // 2x4, 5x2 (10 cells), ragged 11 cells, 3x4
			for obj := range c18Object {
				idx := c18Encode(c18Vec{Shape: shape, Object: obj})
				n++
				c := &Case{Property: "C18", Kind: "vector"}
				c.SetExtra(c18Extra{Index: idx, API: true, Hidden: true})
				if v := evalCase(c, checkC18); v != nil {
					t.Fatalf("property C18 violated [%s]: %s", v.Signature, v.Detail)
				}
			}
		}
	}
	for idx := 0; idx < total; idx++ {
		if idx%nshards != shard {
			continue
		}
		// quick tier: a pseudo-random 1/48 of the vectors (a multiplicative hash of the index, so the
		// slice is not correlated with the mixed-radix digits), rotated by the seed
		if !thorough && int(mixIndex(idx)%48) != ((seed%48)+48)%48 {
			continue
		}
		n++
		c := &Case{Property: "C18", Kind: "vector"}
		// the API-level sample is denser for tables that hold a frame (the rule that looks at it is
		// the one that depends on what the converter's working copy still contains)
		api := mixIndex(idx+7)%97 == 0 || (c18Decode(idx).Object == 4 && mixIndex(idx+3)%11 == 0)
		c.SetExtra(c18Extra{Index: idx, API: api, Hidden: mixIndex(idx+13)%8 == 0})
		c.HTML = "" // rendered from the index
		if v := evalCase(c, checkC18); v != nil {
			t.Fatalf("property C18 violated [%s]: %s", v.Signature, v.Detail)
		}
	}
	st.mu.Lock()
	st.Exhaustive = thorough
	st.mu.Unlock()
	st.Note("enumeration", fmt.Sprintf("shard %d/%d visited %d of %d feature vectors, each at 6 placements", shard, nshards, n, total))
}

// tableWithWord reports whether a <table> of the output contains the word.
func tableWithWord(root *html.Node, word string) bool {
	for _, t := range findAll(root, func(n *html.Node) bool { return isElem(n, "table") }) {
		for _, w := range strings.Fields(innerTextOf(t)) {
			if w == word {
				return true
			}
		}
	}
	return false
}

func mixIndex(i int) uint32 {
	x := uint32(i)*2654435761 + 0x9e3779b9
	x ^= x >> 15
	x *= 2246822519
	x ^= x >> 13
	return x
}
