package props

import (
	"strings"
	"testing"

	"golang.org/x/net/html"
	"pgregory.net/rapid"
)

// C05 — distilled HTML is inert.

func init() { register("C05", checkC05) }

var noiseAttrs = []string{
	` onbeforetoggle="t()"`, ` onscrollend="s()"`, ` onpointerrawupdate="p()"`, ` onbeforematch="m()"`, ` onslotchange="c()"`, ` oncontextlost="l()"`, ` onsecuritypolicyviolation="v()"`, ` onwebkitanimationend="w()"`, ` onfoo="any()"`,
	` onclick="steal(1)"`, ` onload="x()"`, ` onerror="y()"`, ` onmouseover="z()"`, ` ONCLICK="up()"`, ` onfocus="f()"`,
	` class="language-go highlight js%d"`, ` class="lang-js x%d"`, ` class="hljs language-python"`, ` class="wp-block-code%d"`,
	` id="zz%d"`, ` class="foo bar%d"`, ` class="x%d"`, ` style="color:red"`, ` style="font-weight:bold;margin:0"`,
	` data-x="v%d"`, ` data-track-id="%d"`, ` foo="bar"`, ` ng-click="go()"`, ` x-bar="1"`, ` @click="a"`,
	` title="zt%d"`, ` lang="en"`, ` dir="ltr"`, ` align="left"`, ` bgcolor="#fff"`, ` width="10"`, ` height="10"`,
	` itemprop="text"`, ` role="note"`, ` tabindex="0"`, ` contenteditable="false"`, ` aria-label="lbl"`,
}

func noisyAttr(g *G, tag string) string {
	// style attributes change display/visibility classification only through display:/visibility:,
	// which are never generated here.
	n := 0
	switch g.intn(0, 9, "noise#") {
	case 0, 1, 2, 3:
		n = 0
	case 4, 5, 6:
		n = 1
	case 7, 8:
		n = 2
	default:
		n = 4
	}
	var b strings.Builder
	used := map[string]bool{}
	if tag != "blockquote" && tag != "span" && tag != "table" && g.intn(0, 19, "noiserep") == 0 {
		// the same attribute several times in one start tag
		k := g.pick("noiserepk", "class", "id", "style")
		v := map[string]string{"class": "c", "id": "i", "style": "color:#"}[k]
		for j := 0; j < g.intn(2, 4, "noiserepn"); j++ {
			g.n++
			b.WriteString(" " + k + `="` + v + itoa(g.n) + `"`)
		}
		used[k] = true
	}
	for i := 0; i < n; i++ {
		a := noiseAttrs[g.intn(0, len(noiseAttrs)-1, "noise")]
		key := strings.ToLower(strings.SplitN(strings.TrimSpace(a), "=", 2)[0])
		if used[key] {
			continue
		}
		if key == "class" && (tag == "blockquote" || tag == "span") {
			continue // class decides twitter / lazy-image recognition
		}
		if key == "role" && tag == "table" {
			continue
		}
		if key == "contenteditable" {
			continue
		}
		used[key] = true
		g.n++
		b.WriteString(strings.ReplaceAll(a, "%d", itoa(g.n)))
	}
	return b.String()
}

func itoa(n int) string {
	if n == 0 {
		return "0"
	}
	var d []byte
	for n > 0 {
		d = append([]byte{byte('0' + n%10)}, d...)
		n /= 10
	}
	return string(d)
}

func genC05(t *rapid.T) *Case {
	p := carrierProfile()
	p.Attr = noisyAttr
	p.EscapedText = true
	p.ForeignRawText = true
	p.Top = append(append([]wc{}, p.Top...), wc{"fakeplaceholder", 4})
	p.Core = append(append([]wc{}, p.Core...), wc{"fakeplaceholder", 4})
	p.Inline = append(append([]wc{}, p.Inline...), wc{"mxss", 3})
	p.Inline = append(append([]wc{}, p.Inline...), wc{"escaped", 4})
	p.Core = append(append([]wc{}, p.Core...), wc{"pre", 6}, wc{"list", 6})
	// more media so that all element kinds are retained often
	p.Core = append(append([]wc{}, p.Core...), wc{"img", 5}, wc{"video", 5}, wc{"youtube", 3}, wc{"vimeo", 2}, wc{"tweet", 3}, wc{"tweetframe", 2}, wc{"picture", 3}, wc{"lazy", 2})
	g := newG(t, p)
	c := &Case{Property: "C05", HTML: g.page()}
	c.Opts = genOpts(t, 40)
	return c
}

func checkC05(c *Case) (*Violation, caseInfo) {
	var info caseInfo
	doc, out := applyHTML(c.HTML, c.Opts)
	if out.Panicked || out.Err != nil || out.Res == nil {
		info.Skip = "apply-failed"
		return nil, info
	}
	_ = doc
	var viol *Violation
	kinds := map[string]bool{}
	var rec func(n *html.Node, inPH bool, ctx string)
	rec = func(n *html.Node, inPH bool, ctx string) {
		if n.Type == html.ElementNode {
			ph := isPlaceholder(n)
			switch n.Data {
			case "script", "style":
				if viol == nil {
					viol = violationf("C05 element "+n.Data+" in "+ctx, "<%s> element in distilled HTML (%s): %s", n.Data, ctx, truncate(render(n), 300))
				}
			case "img", "picture":
				kinds["image"] = true
			case "figure":
				kinds["figure"] = true
			case "video":
				kinds["video"] = true
			case "table":
				kinds["table"] = true
			case "p":
				kinds["text"] = true
			}
			if ph {
				kinds["embed"] = true
				// the wrapper must be one the distiller created for an embed of the page: ids of
				// imitated placeholders (text of the page that looks like markup) start with "fg"
				for _, tk := range textTokens(attrVal(n, "data-id")) {
					if strings.HasPrefix(tk, "fg") && viol == nil {
						viol = violationf("C05 placeholder-not-created-by-the-distiller in "+ctx, "an embed placeholder with data-id=%q stands in the distilled HTML (%s), but the page only has text that looks like one: %s", attrVal(n, "data-id"), ctx, truncate(render(n), 300))
					}
				}
			}
			for _, a := range n.Attr {
				k := strings.ToLower(a.Key)
				bad := ""
				switch {
				case strings.HasPrefix(k, "on"):
					bad = "event-handler"
				case k == "id" || k == "style":
					bad = k
				case k == "class":
					if !(ph && a.Val == "embed-placeholder") {
						bad = "class"
					}
				case strings.HasPrefix(k, "data-"):
					if !(ph && (k == "data-type" || k == "data-id")) {
						bad = "data-*"
					}
				}
				if bad != "" && viol == nil {
					viol = violationf("C05 attribute "+bad+" on "+n.Data+" in "+ctx, "attribute %s=%q on <%s> in distilled HTML (%s)", a.Key, a.Val, n.Data, ctx)
				}
			}
			nctx := ctx
			switch {
			case ph:
				nctx = "placeholder"
			case n.Data == "table" && ctx == "top":
				nctx = "table"
			case n.Data == "figure" && ctx == "top":
				nctx = "figure"
			case n.Data == "video" && ctx == "top":
				nctx = "video"
			}
			inPH = inPH || ph
			ctx = nctx
		}
		for ch := n.FirstChild; ch != nil; ch = ch.NextSibling {
			rec(ch, inPH, ctx)
		}
	}
	// the root container is the distiller's own <div>
	for ch := out.Res.Node.FirstChild; ch != nil; ch = ch.NextSibling {
		rec(ch, false, "top")
	}
	for k := range kinds {
		info.Classes = append(info.Classes, "out:"+k)
	}
	info.NonTrivial = len(kinds) >= 3
	return viol, info
}

func TestC05(t *testing.T) { runProp(t, genC05, checkC05) }
