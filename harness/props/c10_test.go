package props

import (
	"bytes"
	"fmt"
	"net/http"
	"net/http/httptest"
	nurl "net/url"
	"os"
	"path/filepath"
	"reflect"
	"strings"
	"sync"
	"testing"
	"time"

	"github.com/go-shiori/dom"
	distiller "github.com/markusmobius/go-domdistiller"
	"golang.org/x/net/html"
	"pgregory.net/rapid"
)

// C10 — caller-owned arguments are never modified.

func init() { register("C10", checkC10) }

type c10Doc struct {
	HTML string `json:"html"`
	Root string `json:"root"` // document | html | sub | detached
	Path []int  `json:"path,omitempty"`
}

type c10Step struct {
	Op  string `json:"op"` // apply | reader | file | url
	Doc int    `json:"doc"`
	Opt int    `json:"opt"` // -1 = nil options
}

type c10Extra struct {
	Docs     []c10Doc  `json:"docs"`
	Opts     []OptSpec `json:"opts"`
	ShareURL bool      `json:"share_url"` // all Options values share one *url.URL
	History  []c10Step `json:"history"`
}

type nodeSnap struct {
	n                               *html.Node
	typ                             html.NodeType
	data, ns                        string
	atom                            interface{}
	attr                            []html.Attribute
	parent, first, last, prev, next *html.Node
}

func snapshotTree(top *html.Node) []nodeSnap {
	var out []nodeSnap
	var rec func(n *html.Node)
	rec = func(n *html.Node) {
		out = append(out, nodeSnap{n, n.Type, n.Data, n.Namespace, n.DataAtom, append([]html.Attribute(nil), n.Attr...),
			n.Parent, n.FirstChild, n.LastChild, n.PrevSibling, n.NextSibling})
		for c := n.FirstChild; c != nil; c = c.NextSibling {
			rec(c)
		}
	}
	rec(top)
	return out
}

func describeNode(n *html.Node) string {
	if n == nil {
		return "<nil>"
	}
	switch n.Type {
	case html.ElementNode:
		return "<" + n.Data + ">"
	case html.TextNode:
		return "text " + truncate(fmt.Sprintf("%q", n.Data), 40)
	}
	return fmt.Sprintf("node type %d", n.Type)
}

// compareTree returns a description of the first difference between the snapshot and the live tree.
func compareTree(top *html.Node, snap []nodeSnap) (kind, detail string) {
	now := snapshotTree(top)
	if len(now) != len(snap) {
		return "node-set", fmt.Sprintf("the tree had %d nodes before the call and has %d after it", len(snap), len(now))
	}
	for i := range snap {
		a, b := snap[i], now[i]
		switch {
		case a.n != b.n:
			return "node-set", fmt.Sprintf("node #%d in document order was %s and is now a different node %s", i, describeNode(a.n), describeNode(b.n))
		case a.typ != b.typ || a.data != b.data || a.ns != b.ns || a.atom != b.atom:
			return "node-name", fmt.Sprintf("node #%d was %v %q and is now %v %q", i, a.typ, a.data, b.typ, b.data)
		case !reflect.DeepEqual(a.attr, b.attr) && !(len(a.attr) == 0 && len(b.attr) == 0):
			return "attributes", fmt.Sprintf("attributes of %s changed from %v to %v", describeNode(a.n), a.attr, b.attr)
		case a.parent != b.parent || a.first != b.first || a.last != b.last || a.prev != b.prev || a.next != b.next:
			return "links", fmt.Sprintf("parent/child/sibling links of %s changed", describeNode(a.n))
		}
	}
	return "", ""
}

func topOf(n *html.Node) *html.Node {
	for n.Parent != nil {
		n = n.Parent
	}
	return n
}

func copyURL(u *nurl.URL) *nurl.URL {
	if u == nil {
		return nil
	}
	c := *u
	if u.User != nil {
		ui := *u.User
		c.User = &ui
	}
	return &c
}

// ---- loopback server for ApplyForURL ---------------------------------------

var (
	srvOnce  sync.Once
	srv      *httptest.Server
	srvPages sync.Map
	srvErr   error
)

func pageServer() (*httptest.Server, error) {
	srvOnce.Do(func() {
		defer func() {
			if r := recover(); r != nil {
				srvErr = fmt.Errorf("cannot listen on loopback: %v", r)
			}
		}()
		srv = httptest.NewServer(http.HandlerFunc(func(w http.ResponseWriter, r *http.Request) {
			if strings.HasPrefix(r.URL.Path, "/redir/") {
				// the same page under another address, reached through a redirect
				http.Redirect(w, r, strings.TrimPrefix(r.URL.Path, "/redir"), http.StatusMovedPermanently)
				return
			}
			v, ok := srvPages.Load(r.URL.Path)
			if !ok {
				http.NotFound(w, r)
				return
			}
			w.Header().Set("Content-Type", "text/html; charset=utf-8")
			w.Write([]byte(v.(string)))
		}))
	})
	return srv, srvErr
}

// ---- generator ---------------------------------------------------------------

func rewriteProfile() *Profile {
	p := carrierProfile()
	rew := []wc{{"figure", 10}, {"picture", 6}, {"lazy", 5}, {"img", 5}, {"video", 5}, {"youtube", 4}, {"vimeo", 3}, {"tweet", 4}, {"tweetframe", 2}, {"dtable", 6}, {"ltable", 3}}
	p.Core = append(append([]wc{}, p.Core...), rew...)
	p.Top = append(append([]wc{}, p.Top...), rew...)
	p.Inline = append(append([]wc{}, p.Inline...), wc{"font", 10}, wc{"ajs1", 10}, wc{"ajsn", 4})
	return p
}

func genC10(t *rapid.T) *Case {
	var ex c10Extra
	nd := rapid.IntRange(1, 3).Draw(t, "ndocs")
	for i := 0; i < nd; i++ {
		var page string
		switch rapid.IntRange(0, 7).Draw(t, "dk") {
		case 0, 1:
			page = genPager(t).HTML
		case 2:
			// markup the metadata parsers read on the caller's own tree (before the converter clones
			// it), with script/style elements inside the elements whose text they take
			page = strings.Replace(genC14(t).HTML, "</body>", `<div itemscope itemtype="http://schema.org/Article"><span itemprop="author">Jane Doe<script>var a=1</script></span>`+
				`<h2 itemprop="headline">Some <style>h2{}</style>headline</h2><div itemprop="articleBody"><style>p{margin:0}</style>body text<script>var b=2</script></div></div></body>`, 1)
		default:
			page = newG(t, rewriteProfile()).page()
		}
		if rapid.IntRange(0, 3).Draw(t, "svgstyle") == 0 {
			// inline SVG / MathML with elements of their own that are named like HTML raw-text elements
			svg := `<svg width="10" height="10"><style>.a{fill:red}</style><script>var s=1</script><circle r="4"/><title>icon</title></svg>`
			wrap := strings.Repeat("<div>", rapid.IntRange(0, 4).Draw(t, "svgdepth"))
			page = strings.Replace(page, "</body>", wrap+"<p>figure text "+svg+` and <math><mtext>x</mtext><style>m{}</style></math> more text.</p>`+strings.Repeat("</div>", strings.Count(wrap, "<div>"))+"</body>", 1)
		}
		if rapid.IntRange(0, 3).Draw(t, "rawunicode") == 0 {
			page = strings.Replace(page, "</body>", unicodeSnippet+"</body>", 1) // decomposed accents, soft hyphens, compatibility characters
		}
		d := c10Doc{HTML: page, Root: rapid.SampledFrom([]string{"document", "html", "sub", "detached", "document"}).Draw(t, "root")}
		if d.Root == "sub" || d.Root == "detached" {
			depth := rapid.IntRange(1, 4).Draw(t, "depth")
			for j := 0; j < depth; j++ {
				d.Path = append(d.Path, rapid.IntRange(0, 6).Draw(t, "path"))
			}
		}
		ex.Docs = append(ex.Docs, d)
	}
	no := rapid.IntRange(1, 3).Draw(t, "nopts")
	for i := 0; i < no; i++ {
		o := genOpts(t, 70)
		o.Nil = false
		if o.URL != "" && rapid.IntRange(0, 3).Draw(t, "userinfo") == 0 {
			o.URL = strings.Replace(o.URL, "://", "://user:secret@", 1)
		}
		if rapid.IntRange(0, 7).Draw(t, "oddurl") == 0 {
			// page URLs a caller may well hand over: a local file, a relative URL
			o.URL = rapid.SampledFrom([]string{"file:///home/user/saved/page.html", "/story/1", "story/1?page=2", "//example.com/x"}).Draw(t, "oddurlv")
		}
		ex.Opts = append(ex.Opts, o)
	}
	ex.ShareURL = rapid.Bool().Draw(t, "share")
	nh := rapid.IntRange(1, 8).Draw(t, "nh")
	for i := 0; i < nh; i++ {
		ex.History = append(ex.History, c10Step{
			Op:  rapid.SampledFrom([]string{"apply", "apply", "apply", "reader", "file", "url", "url"}).Draw(t, "op"),
			Doc: rapid.IntRange(0, nd-1).Draw(t, "doc"),
			Opt: rapid.IntRange(-1, no-1).Draw(t, "opt"),
		})
	}
	c := &Case{Property: "C10"}
	c.SetExtra(ex)
	return c
}

// elementAt walks child-element indexes (modulo the number of element children) below body/html.
func elementAt(doc *html.Node, path []int) *html.Node {
	cur := dom.QuerySelector(doc, "body")
	if cur == nil {
		cur = dom.QuerySelector(doc, "*")
	}
	for _, i := range path {
		kids := dom.Children(cur)
		if len(kids) == 0 {
			break
		}
		cur = kids[i%len(kids)]
	}
	return cur
}

func checkC10(c *Case) (*Violation, caseInfo) {
	var info caseInfo
	var ex c10Extra
	c.GetExtra(&ex)
	if len(ex.Docs) == 0 || len(ex.Opts) == 0 {
		info.Skip = "empty-pool"
		return nil, info
	}
	// build the pool
	type liveDoc struct {
		arg  *html.Node
		top  *html.Node
		snap []nodeSnap
	}
	docs := make([]*liveDoc, len(ex.Docs))
	for i, d := range ex.Docs {
		// (plain html.Parse: the caller's tree keeps its text exactly as it stands in the bytes)
		parsed, err := html.Parse(bytes.NewReader([]byte(d.HTML)))
		if err != nil {
			info.Skip = "parse-failed"
			return nil, info
		}
		var arg *html.Node
		switch d.Root {
		case "html":
			arg = dom.QuerySelector(parsed, "html")
		case "sub":
			arg = elementAt(parsed, d.Path)
		case "detached":
			arg = cloneDeep(elementAt(parsed, d.Path))
		default:
			arg = parsed
		}
		if arg == nil {
			arg = parsed
		}
		top := topOf(arg)
		docs[i] = &liveDoc{arg: arg, top: top, snap: snapshotTree(top)}
	}
	opts := make([]*distiller.Options, len(ex.Opts))
	optsBefore := make([]distiller.Options, len(ex.Opts))
	urlBefore := make([]*nurl.URL, len(ex.Opts))
	var sharedURL *nurl.URL
	for i, o := range ex.Opts {
		opts[i] = o.Build()
		if ex.ShareURL && opts[i].OriginalURL != nil {
			if sharedURL == nil {
				sharedURL = opts[i].OriginalURL
			}
			opts[i].OriginalURL = sharedURL
		}
		optsBefore[i] = *opts[i]
		urlBefore[i] = copyURL(opts[i].OriginalURL)
	}

	verify := func(step int, s c10Step) *Violation {
		for i, d := range docs {
			if kind, detail := compareTree(d.top, d.snap); kind != "" {
				return violationf("C10 tree-modified what="+kind+" op="+s.Op+" root="+ex.Docs[s.Doc].Root,
					"after step %d (%s on document %d, root kind %s) the caller's tree %d is modified: %s", step, s.Op, s.Doc, ex.Docs[s.Doc].Root, i, detail)
			}
		}
		for i := range opts {
			if opts[i].LogFlags != optsBefore[i].LogFlags || opts[i].SkipPagination != optsBefore[i].SkipPagination ||
				opts[i].PaginationAlgo != optsBefore[i].PaginationAlgo || opts[i].OriginalURL != optsBefore[i].OriginalURL {
				return violationf("C10 options-modified op="+s.Op, "after step %d (%s with options %d) the caller's Options value %d changed from %+v to %+v", step, s.Op, s.Opt, i, optsBefore[i], *opts[i])
			}
			if !reflect.DeepEqual(opts[i].OriginalURL, urlBefore[i]) {
				return violationf("C10 url-modified op="+s.Op, "after step %d (%s) the URL pointed to by Options %d changed from %v to %v", step, s.Op, i, urlBefore[i], opts[i].OriginalURL)
			}
		}
		return nil
	}

	usedTwice := map[int]int{}
	for step, s := range ex.History {
		if s.Doc >= len(docs) || s.Opt >= len(opts) {
			continue
		}
		var o *distiller.Options
		if s.Opt >= 0 {
			o = opts[s.Opt]
		}
		var out callOutcome
		switch s.Op {
		case "reader":
			out = guarded(0, func() (*distiller.Result, error) {
				return distiller.ApplyForReader(strings.NewReader(ex.Docs[s.Doc].HTML), o)
			})
		case "file":
			dir := os.Getenv("VERIF_SCRATCH")
			if dir == "" {
				dir = os.TempDir()
			}
			f := filepath.Join(dir, fmt.Sprintf("c10-%d.html", os.Getpid()))
			os.WriteFile(f, []byte(ex.Docs[s.Doc].HTML), 0o644)
			out = guarded(0, func() (*distiller.Result, error) { return distiller.ApplyForFile(f, o) })
			os.Remove(f)
		case "url":
			server, err := pageServer()
			if err != nil || server == nil {
				st.Note("ApplyForURL", "loopback listener unavailable: sub-check skipped")
				continue
			}
			path := fmt.Sprintf("/doc/%s/page.html", shortHash(ex.Docs[s.Doc].HTML))
			srvPages.Store(path, ex.Docs[s.Doc].HTML)
			addr := server.URL + path
			out = guarded(0, func() (*distiller.Result, error) { return distiller.ApplyForURL(addr, 10*time.Second, o) })
			if !out.Panicked && out.Err == nil && out.Res != nil && out.Res.URL != addr {
				return violationf("C10 applyforurl-result-url", "ApplyForURL(%q) returned Result.URL=%q", addr, out.Res.URL), info
			}
			info.Classes = append(info.Classes, "op:url")
		default:
			out = guarded(0, func() (*distiller.Result, error) { return distiller.Apply(docs[s.Doc].arg, o) })
			usedTwice[s.Doc]++
			info.Classes = append(info.Classes, "apply-root:"+ex.Docs[s.Doc].Root)
		}
		if out.Panicked {
			info.Skip = "apply-panicked"
			return nil, info
		}
		if v := verify(step, s); v != nil {
			return v, info
		}
	}
	twice := false
	for _, n := range usedTwice {
		if n >= 2 {
			twice = true
		}
	}
	rewritten := 0
	for _, d := range ex.Docs {
		for _, marker := range []string{"<font", "javascript:", "<noscript><img", "<picture", "data-src", "twitter-tweet", "<video", "<table"} {
			if strings.Contains(d.HTML, marker) {
				rewritten++
			}
		}
	}
	info.Classes = dedup(info.Classes)
	info.NonTrivial = len(ex.History) >= 3 && twice && rewritten >= 2
	return nil, info
}

func TestC10(t *testing.T) { runProp(t, genC10, checkC10) }
