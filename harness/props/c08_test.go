package props

import (
	"fmt"
	"strings"
	"testing"

	"golang.org/x/net/html"
	"pgregory.net/rapid"
)

// C08 — media and tables are retained exactly when they follow retained text.

func init() { register("C08", checkC08) }

func genC08(t *rapid.T) *Case {
	p := articleProfile()
	p.Title = false // no title: a content block is never rendered empty
	p.NoSymbolLinks = true
	media := []wc{{"figure", 10}, {"img", 10}, {"picture", 5}, {"lazy", 4}, {"video", 8}, {"youtube", 5}, {"vimeo", 4}, {"tweet", 4},
		{"tweetframe", 3}, {"dtable", 8}, {"inlineimg", 5}, {"chrome", 8}, {"links", 5}, {"texttable", 8}, {"separator", 10}, {"aside", 4}, {"wrappedmedia", 10}, {"uspacer", 6}, {"jsmedia", 5}, {"bylinemedia", 5}}
	p.Top = append(append([]wc{}, p.Top...), media...)
	p.Core = append(append([]wc{}, p.Core...), media...)
	p.Nested = append(append([]wc{}, nestedText...), wc{"figure", 6}, wc{"video", 4}, wc{"youtube", 3}, wc{"dtable", 4}, wc{"img", 6})
	p.Attr = func(g *G, tag string) string {
		if tag == "img" && g.intn(0, 11, "mathimg") == 0 {
			// MediaWiki's formula images: hidden from assistive technology, displayed all the same
			return ` aria-hidden="true" class="` + g.pick("mathimgcls", "mwe-math-fallback-image-inline", "mwe-math-fallback-image-display", "fallback-image", "mwe-math-fallback-image-inline mw-invert") + `"`
		}
		return ""
	}
	g := newG(t, p)
	c := &Case{Property: "C08", HTML: g.page()}
	c.Opts = genOpts(t, 40)
	return c
}

type mediaEvt struct {
	kind     string
	ids      []string // tokens that identify the media in the output
	prevTok  string   // nearest preceding text token ("" if none)
	node     *html.Node
	promotab bool // image or figure: may be promoted as lead image
}

// mediaKind classifies an element of the source as an atomic non-text content element.
func mediaKind(n *html.Node) string {
	if n.Type != html.ElementNode {
		return ""
	}
	switch n.Data {
	case "img":
		return "image"
	case "picture":
		return "picture"
	case "figure":
		if len(findAll(n, func(x *html.Node) bool { return isElem(x, "img", "picture") })) > 0 ||
			strings.Contains(render(n), "<noscript>") {
			return "figure"
		}
	case "span":
		if strings.Contains(attrVal(n, "class"), "lazy-image-placeholder") {
			return "lazy-image"
		}
	case "video":
		return "video"
	case "iframe":
		src := attrVal(n, "src")
		switch {
		case strings.Contains(src, "youtube.com/embed/"):
			return "youtube"
		case strings.Contains(src, "player.vimeo.com/video/"):
			return "vimeo"
		case strings.Contains(src, "platform.twitter.com/") && attrVal(n, "data-tweet-id") != "":
			return "twitter-iframe"
		}
	case "object":
		if strings.Contains(attrVal(n, "data"), "youtube.com/v/") {
			return "youtube"
		}
	case "blockquote":
		if strings.Contains(attrVal(n, "class"), "twitter-tweet") {
			return "tweet"
		}
	case "table":
		if isGenDataTable(n) {
			return "data-table"
		}
	}
	return ""
}

func mediaIDs(kind string, n *html.Node) []string {
	switch kind {
	case "data-table":
		th := findAll(n, func(x *html.Node) bool { return isElem(x, "th") })
		return textTokens(render(th[0]))[:1]
	case "tweet":
		var ids []string
		for _, a := range findAll(n, func(x *html.Node) bool { return isElem(x, "a") }) {
			ids = textTokens(attrVal(a, "href"))
		}
		return ids
	case "figure":
		// the image the figure shows: identified by any image URL token of the figure
		var ids []string
		for _, x := range findAll(n, func(x *html.Node) bool { return x.Type == html.ElementNode }) {
			for _, a := range x.Attr {
				if a.Key == "src" || a.Key == "srcset" || a.Key == "data-src" || a.Key == "data-srcset" {
					ids = append(ids, textTokens(a.Val)...)
				}
			}
		}
		// noscript content is raw text in the parsed tree
		for _, ns := range findAll(n, func(x *html.Node) bool { return isElem(x, "noscript") }) {
			for _, tk := range textTokens(render(ns)) {
				if strings.HasPrefix(tk, "i") {
					ids = append(ids, tk)
				}
			}
		}
		return ids
	default:
		var ids []string
		for _, x := range findAll(n, func(x *html.Node) bool { return x.Type == html.ElementNode }) {
			for _, a := range x.Attr {
				switch a.Key {
				case "src", "srcset", "data-src", "data-srcset", "poster", "data", "data-tweet-id":
					ids = append(ids, textTokens(a.Val)...)
				}
			}
		}
		return ids
	}
}

func sourceMediaEvents(doc *html.Node) []mediaEvt {
	var evts []mediaEvt
	prev := ""
	var rec func(n *html.Node)
	rec = func(n *html.Node) {
		switch n.Type {
		case html.TextNode:
			if tk := textTokens(n.Data); len(tk) > 0 {
				prev = tk[len(tk)-1]
			} else if f := strings.Fields(n.Data); len(f) > 0 {
				// a text block without words (a separator such as "****") is still a text block
				prev = "SEP:" + f[len(f)-1]
			}
			return
		case html.ElementNode:
			if notRendered(n) {
				return
			}
			if k := mediaKind(n); k != "" {
				evts = append(evts, mediaEvt{kind: k, ids: mediaIDs(k, n), prevTok: prev, node: n,
					promotab: k == "image" || k == "picture" || k == "figure" || k == "lazy-image"})
				return
			}
			if nonReading(n) {
				return
			}
		case html.CommentNode, html.DoctypeNode:
			return
		}
		for c := n.FirstChild; c != nil; c = c.NextSibling {
			rec(c)
		}
	}
	rec(doc)
	return evts
}

func checkC08(c *Case) (*Violation, caseInfo) {
	var info caseInfo
	doc, out := applyHTML(c.HTML, c.Opts)
	if out.Panicked || out.Err != nil || out.Res == nil {
		info.Skip = "apply-failed"
		return nil, info
	}
	if out.Res.Title != "" {
		info.Skip = "title-detected"
		return nil, info
	}
	kept := tokenSet(textTokens(out.Res.Text))
	for _, w := range strings.Fields(out.Res.Text) {
		if !rxToken.MatchString(w) {
			kept["SEP:"+w] = true
		}
	}
	outHTML := render(out.Res.Node)
	outToks := tokenSet(textTokens(outHTML))
	var viol *Violation
	promoted := 0
	cells := map[string]bool{}
	for _, m := range sourceMediaEvents(doc) {
		if len(m.ids) == 0 {
			info.Classes = append(info.Classes, "unidentifiable:"+m.kind)
			continue
		}
		expected := m.prevTok != "" && kept[m.prevTok]
		got := false
		for _, id := range m.ids {
			if outToks[id] {
				got = true
			}
		}
		cell := fmt.Sprintf("%s:expected=%v,got=%v", m.kind, expected, got)
		cells[fmt.Sprintf("e=%v,g=%v", expected, got)] = true
		info.Classes = append(info.Classes, cell)
		switch {
		case expected && !got:
			if viol == nil {
				viol = violationf("C08 dropped-after-retained-text kind="+m.kind,
					"%s %v follows retained text (token %q) but is absent from the distilled HTML", m.kind, m.ids, m.prevTok)
			}
		case !expected && got:
			if m.promotab {
				promoted++
				if promoted > 1 && viol == nil {
					viol = violationf("C08 more-than-one-promoted-image",
						"%s %v is retained although the nearest preceding text (token %q) is not, and another image was already promoted", m.kind, m.ids, m.prevTok)
				}
			} else if viol == nil {
				viol = violationf("C08 retained-after-dropped-text kind="+m.kind,
					"%s %v is retained although the nearest preceding text (token %q) is not retained", m.kind, m.ids, m.prevTok)
			}
		}
	}
	if promoted > 0 {
		info.Classes = append(info.Classes, "lead-image-promoted")
	}
	info.Classes = dedup(info.Classes)
	info.NonTrivial = len(cells) >= 3 || (cells["e=true,g=true"] && cells["e=false,g=false"])
	return viol, info
}

func TestC08(t *testing.T) { runProp(t, genC08, checkC08) }
