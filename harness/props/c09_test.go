package props

import (
	"fmt"
	"strings"
	"testing"
	"unicode"

	"golang.org/x/net/html"
	"pgregory.net/rapid"
)

// C09 — the views of one result agree: Text, HTML, ContentImages and WordCount.

func init() { register("C09", checkC09) }

func genC09(t *rapid.T) *Case {
	p := carrierProfile()
	p.CommaURLs = true
	p.Inline = append(append([]wc{}, p.Inline...), wc{"joined", 2}, wc{"escaped", 3}, wc{"litword", 2})
	p.EscapedText = true
	p.InlineBlocksInCells = true
	mode := rapid.IntRange(0, 2).Draw(t, "c09mode")
	if mode == 0 {
		// word-count sub-domain: no title, no tables, no figures
		p.Title = false
		strip := func(ws []wc) []wc {
			var out []wc
			for _, w := range ws {
				if w.k == "dtable" || w.k == "figure" {
					continue
				}
				out = append(out, w)
			}
			return out
		}
		p.Top, p.Core, p.Nested = strip(p.Top), strip(p.Core), strip(p.Nested)
		// short pages with "unlikely" marked blocks: the second extraction pass is then the one that counts
		if rapid.Bool().Draw(t, "hangul") {
			p.Top = append(p.Top, wc{"hangul", 10})
			p.Core = append(p.Core, wc{"hangul", 6})
			p.LenMix = [3]int{10, 30, 60}
		}
		p.Top = append(p.Top, wc{"nbsp", 6})
		p.Core = append(p.Core, wc{"nbsp", 5})
		p.Top = append(p.Top, wc{"unlikely", 12})
		p.Core = append(p.Core, wc{"unlikely", 10})
		if rapid.Bool().Draw(t, "short") {
			p.MaxTop = 4
			p.LenMix = [3]int{45, 40, 15}
		}
	} else {
		media := []wc{{"figure", 8}, {"img", 8}, {"picture", 5}, {"lazy", 3}, {"dtable", 8}, {"inlineimg", 4}}
		p.Top = append(append([]wc{}, p.Top...), media...)
		p.Core = append(append([]wc{}, p.Core...), media...)
	}
	g := newG(t, p)
	c := &Case{Property: "C09", HTML: g.page()}
	// the first Hangul/CJK character only after 2 to 37 KB of other text (inline style sheet in the head)
	if mode == 0 && rapid.IntRange(0, 3).Draw(t, "latescript") == 0 {
		css := strings.Repeat(".module-header .nav-item > a:hover { color: #336699; margin: 0 auto; padding: 4px 8px }\n", rapid.SampledFrom([]int{20, 60, 120, 200, 400}).Draw(t, "cssrules"))
		c.HTML = strings.Replace(c.HTML, "</head>", "<style>"+css+"</style></head>", 1)
	}
	c.Opts = genOpts(t, 50)
	return c
}

func punctToSpace(s string) string {
	return strings.Map(func(r rune) rune {
		switch r {
		case '.', '?', '!', ',', ';':
			return ' '
		}
		return r
	}, s)
}

// visibleWordsOfOutput renders the word sequence of the distilled HTML: text nodes in document
// order, skipping embed placeholders and elements that still carry the hidden attribute.
func visibleWordsOfOutput(root *html.Node) []string {
	var words []string
	var rec func(n *html.Node)
	rec = func(n *html.Node) {
		switch n.Type {
		case html.TextNode:
			words = append(words, strings.Fields(punctToSpace(n.Data))...)
			return
		case html.ElementNode:
			if isPlaceholder(n) {
				return
			}
			if _, hid := attr(n, "hidden"); hid {
				return
			}
		case html.CommentNode:
			return
		}
		for c := n.FirstChild; c != nil; c = c.NextSibling {
			rec(c)
		}
	}
	rec(root)
	return words
}

// c09BoundaryViolation: the HTML view has one word where the text view has several. Is that word one
// word of the source as well (markup inside a word), or did the distiller fuse words that are separate
// in the source?
func c09BoundaryViolation(c *Case, fused string, i int) *Violation {
	doc, _ := html.Parse(strings.NewReader(c.HTML))
	if doc != nil {
		for _, w := range strictWordsOfSource(doc) {
			if w == fused {
				return violationf("C09 text-view-splits-word-with-markup-inside",
					"%q is one word of the source and of the HTML view (it has inline markup, an empty element or a comment inside), but the text view splits it (word %d): every text node is padded with white space there", fused, i)
			}
		}
	}
	return violationf("C09 html-view-fuses-words-around-removed-element",
		"the HTML view has the word %q (word %d) where the source and the text view have separate words: an element between them was removed without leaving white space", fused, i)
}

var inlineTags = map[string]bool{"a": true, "abbr": true, "b": true, "bdi": true, "bdo": true, "cite": true, "code": true, "data": true, "dfn": true, "em": true,
	"font": true, "i": true, "kbd": true, "label": true, "mark": true, "q": true, "s": true, "samp": true, "small": true, "span": true, "strong": true,
	"sub": true, "sup": true, "time": true, "u": true, "var": true, "wbr": true}

// strictWordsOfOutput: words of the visible text of the distilled HTML with inline boundaries not
// separating words.
func strictWordsOfOutput(root *html.Node) []string {
	var b strings.Builder
	var rec func(n *html.Node)
	rec = func(n *html.Node) {
		switch n.Type {
		case html.TextNode:
			b.WriteString(n.Data)
			return
		case html.ElementNode:
			if isPlaceholder(n) {
				b.WriteString(" ")
				return
			}
			if _, hid := attr(n, "hidden"); hid {
				b.WriteString(" ")
				return
			}
			if !inlineTags[n.Data] {
				b.WriteString(" ")
				defer b.WriteString(" ")
			}
		case html.CommentNode:
			return
		}
		for c := n.FirstChild; c != nil; c = c.NextSibling {
			rec(c)
		}
	}
	rec(root)
	return strings.Fields(punctToSpace(b.String()))
}

// strictWordsOfSource: the same for the source document (non-rendered and non-reading elements count
// as word separators).
func strictWordsOfSource(root *html.Node) []string {
	var b strings.Builder
	var rec func(n *html.Node)
	rec = func(n *html.Node) {
		switch n.Type {
		case html.TextNode:
			b.WriteString(n.Data)
			return
		case html.ElementNode:
			if notRendered(n) || nonReading(n) {
				b.WriteString(" ")
				return
			}
			if !inlineTags[n.Data] {
				b.WriteString(" ")
				defer b.WriteString(" ")
			}
		case html.CommentNode:
			return
		}
		for c := n.FirstChild; c != nil; c = c.NextSibling {
			rec(c)
		}
	}
	rec(root)
	return strings.Fields(punctToSpace(b.String()))
}

// multiNodeWordsOfSource: the words of the source (as strictWordsOfSource) that span more than one text
// node, e.g. "t6qt7q" for t6q<span></span>t7q.
func multiNodeWordsOfSource(root *html.Node) map[string]bool {
	const mark = "\uE000"
	var b strings.Builder
	var rec func(n *html.Node)
	rec = func(n *html.Node) {
		switch n.Type {
		case html.TextNode:
			b.WriteString(mark + n.Data + mark)
			return
		case html.ElementNode:
			if notRendered(n) || nonReading(n) {
				b.WriteString(" ")
				return
			}
			if !inlineTags[n.Data] {
				b.WriteString(" ")
				defer b.WriteString(" ")
			}
		case html.CommentNode:
			return
		}
		for c := n.FirstChild; c != nil; c = c.NextSibling {
			rec(c)
		}
	}
	rec(root)
	res := map[string]bool{}
	for _, w := range strings.Fields(punctToSpace(b.String())) {
		if strings.Contains(strings.Trim(w, mark), mark) {
			res[strings.ReplaceAll(w, mark, "")] = true
		}
	}
	return res
}

func outputImageURLs(root *html.Node) []string {
	var urls []string
	// (a <picture> can carry a srcset of its own: lazy-loading attributes are resolved on it too)
	for _, n := range findAll(root, func(x *html.Node) bool { return isElem(x, "img", "source", "picture") }) {
		if hasAncestor(n, isPlaceholder) {
			continue
		}
		if v := attrVal(n, "src"); v != "" {
			urls = append(urls, v)
		}
		if v := attrVal(n, "srcset"); v != "" {
			urls = append(urls, srcsetCandidates(v)...)
		}
	}
	return urls
}

func checkC09(c *Case) (*Violation, caseInfo) {
	var info caseInfo
	_, out := applyHTML(c.HTML, c.Opts)
	if out.Panicked || out.Err != nil || out.Res == nil {
		info.Skip = "apply-failed"
		return nil, info
	}
	res := out.Res
	var viol *Violation

	// (a) word sequences
	tw := strings.Fields(punctToSpace(res.Text))
	hw := visibleWordsOfOutput(res.Node)
	if len(tw) != len(hw) || strings.Join(tw, " ") != strings.Join(hw, " ") {
		i := 0
		for i < len(tw) && i < len(hw) && tw[i] == hw[i] {
			i++
		}
		ctx := func(ws []string) string {
			lo, hi := max(0, i-3), min(len(ws), i+4)
			if lo > hi {
				lo = hi
			}
			return strings.Join(ws[lo:hi], " ")
		}
		where := "text-block"
		tk := ""
		if i < len(hw) {
			tk = hw[i]
		} else if i < len(tw) {
			tk = tw[i]
		}
		for _, ot := range walkOutput(res.Node) {
			if ot.Tok == tk || strings.Contains(tk, ot.Tok) {
				if ot.InTable {
					where = "table"
				} else if ot.InFigure {
					where = "figure"
				}
				break
			}
		}
		viol = violationf("C09 text-html-words-differ at="+where,
			"word sequences differ at word %d: Text has %d words (…%s…), visible text of HTML has %d words (…%s…)", i, len(tw), ctx(tw), len(hw), ctx(hw))
		// a word of the HTML view that is the concatenation of consecutive words of the text view
		if i < len(hw) && i < len(tw) && strings.HasPrefix(hw[i], tw[i]) && hw[i] != tw[i] {
			cat, j := "", i
			for j < len(tw) && len(cat) < len(hw[i]) {
				cat += tw[j]
				j++
			}
			if cat == hw[i] {
				viol = c09BoundaryViolation(c, hw[i], i)
			}
		}
	}

	// (a') the same comparison with the HTML words computed as a browser would: text of adjacent
	// inline elements runs together, only block boundaries and <br> separate words. The text view
	// pads every text node and every element with white space, so it splits words that contain
	// markup ("<i>micro</i>scopes") or that lost a skipped element between them. That is a recorded
	// finding (see known-findings.json); anything the lenient comparison above rejects is not.
	if viol == nil {
		sw := strictWordsOfOutput(res.Node)
		if strings.Join(tw, " ") != strings.Join(sw, " ") {
			i := 0
			for i < len(tw) && i < len(sw) && tw[i] == sw[i] {
				i++
			}
			at := ""
			if i < len(sw) {
				at = sw[i]
			}
			viol = c09BoundaryViolation(c, at, i)
		}
	}

	// (b) ContentImages is an ordered subsequence of the image URLs of the HTML view
	urls := outputImageURLs(res.Node)
	j := 0
	for _, ci := range res.ContentImages {
		for j < len(urls) && urls[j] != ci {
			j++
		}
		if j == len(urls) {
			if viol == nil {
				viol = violationf("C09 content-image-not-in-html-order",
					"ContentImages entry %q is not the src/srcset candidate of an image of the distilled HTML at or after the previous entry's position\nContentImages=%v\nHTML image URLs=%v", ci, res.ContentImages, urls)
			}
			break
		}
		j++
	}

	// (c) WordCount
	onlyText := countElems(res.Node, "table", "figure") == 0
	if onlyText && res.Title == "" {
		n := 0
		for _, w := range strings.Fields(res.Text) {
			if strings.IndexFunc(w, func(r rune) bool { return unicode.IsLetter(r) || unicode.IsDigit(r) || r == '_' }) >= 0 {
				n++
			}
		}
		info.Classes = append(info.Classes, "wordcount-checked")
		if n != res.WordCount && viol == nil {
			viol = violationf("C09 wordcount-differs", "WordCount=%d but the distilled text has %d words", res.WordCount, n)
			// WordCount is summed per text node: a word with markup inside that the text view keeps in
			// one piece is counted once per text node
			if doc, _ := html.Parse(strings.NewReader(c.HTML)); doc != nil && res.WordCount > n {
				multi := multiNodeWordsOfSource(doc)
				for _, w := range strings.Fields(punctToSpace(res.Text)) {
					if multi[w] {
						viol = violationf("C09 wordcount-counts-word-with-markup-inside-per-text-node",
							"WordCount=%d but the distilled text has %d words: %q is one word of the source and of the text view but spans several text nodes, and WordCount counts every text node on its own", res.WordCount, n, w)
						break
					}
				}
			}
		}
	}

	hasTbl, hasFig := countElems(res.Node, "table") > 0, countElems(res.Node, "figure") > 0
	withSrcset := false
	for _, n := range findAll(res.Node, func(x *html.Node) bool { return isElem(x, "img", "source") }) {
		if attrVal(n, "srcset") != "" {
			withSrcset = true
		}
	}
	ntA := len(tw) >= 20 && (hasTbl || hasFig)
	ntB := len(res.ContentImages) >= 2 && withSrcset
	ntC := onlyText && res.Title == "" && len(tw) >= 30 && countElems(res.Node, "a") > 0
	if ntA {
		info.Classes = append(info.Classes, "nt:text+table/figure")
	}
	if ntB {
		info.Classes = append(info.Classes, "nt:images+srcset")
	}
	if ntC {
		info.Classes = append(info.Classes, "nt:wordcount+anchors")
	}
	info.NonTrivial = ntA || ntB || ntC
	info.Note = fmt.Sprintf("words=%d images=%d wordcount=%d", len(tw), len(res.ContentImages), res.WordCount)
	return viol, info
}

func TestC09(t *testing.T) { runProp(t, genC09, checkC09) }
