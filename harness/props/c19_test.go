package props

import (
	"fmt"
	"strings"
	"testing"

	"golang.org/x/net/html"
	"pgregory.net/rapid"
)

// C19 — third-party frames survive only for allow-listed services, with the right id.

func init() { register("C19", checkC19) }

type c19Origin struct {
	Tok     string `json:"tok"`     // unique id token (also the expected data-id)
	Host    string `json:"host"`    // true host by construction ("" = none: relative without page URL)
	Service string `json:"service"` // service the true host belongs to, "" if not allow-listed
	Tag     string `json:"tag"`
	Shape   string `json:"shape"`
	Src     string `json:"src"`
	NoID    bool   `json:"no_id,omitempty"`   // a frame of an allow-listed service whose URL names no video or tweet
	WantID  string `json:"want_id,omitempty"` // expected data-id when it is not just the token (percent-escapes decode)
}

type c19Extra struct {
	Origins []c19Origin `json:"origins"`
}

var c19Hosts = []struct{ host, service, family string }{
	{"youtube.com", "youtube", "youtube"}, {"www.youtube.com", "youtube", "youtube"}, {"m.youtube.com", "youtube", "youtube"},
	{"youtube-nocookie.com", "youtube", "youtube"}, {"www.youtube-nocookie.com", "youtube", "youtube"},
	{"player.vimeo.com", "vimeo", "vimeo"}, {"a.player.vimeo.com", "vimeo", "vimeo"},
	{"twitter.com", "twitter", "twitter"}, {"platform.twitter.com", "twitter", "twitter"}, {"mobile.twitter.com", "twitter", "twitter"},
	// look-alikes
	{"youtube.com.evil.example", "", "youtube"}, {"evilyoutube.com", "", "youtube"}, {"notyoutube.com", "", "youtube"}, {"youtube.co", "", "youtube"},
	{"youtube-nocookie.com.evil.example", "", "youtube"}, {"xyoutube-nocookie.com", "", "youtube"},
	// a registrable name that ends in an allow-listed one after a hyphen, underscore or digit
	{"my-youtube.com", "", "youtube"}, {"free-youtube-nocookie.com", "", "youtube"}, {"cdn-player.vimeo.com", "", "vimeo"}, {"fake-twitter.com", "", "twitter"},
	{"www.4youtube.com", "", "youtube"}, {"x_twitter.com", "", "twitter"},
	{"vimeo.com", "", "vimeo"}, {"www.vimeo.com", "", "vimeo"}, {"evilplayer.vimeo.com", "", "vimeo"}, {"player.vimeo.com.evil.example", "", "vimeo"},
	{"nottwitter.com", "", "twitter"}, {"twitter.com.evil.example", "", "twitter"}, {"twitter.co", "", "twitter"},
	// userinfo tricks and name in path / query only
	{"youtube.com@evil.example", "", "youtube"}, {"player.vimeo.com@evil.example", "", "vimeo"}, {"twitter.com:x@evil.example", "", "twitter"},
	{"evil.example/youtube.com", "", "youtube"}, {"evil.example/player.vimeo.com", "", "vimeo"}, {"evil.example/twitter.com", "", "twitter"},
	{"evil.example/x?u=http://www.youtube.com", "", "youtube"},
	{"www.youtube.com&rel=0@evil.example", "", "youtube"}, {"player.vimeo.com&x=1@evil.example", "", "vimeo"}, {"twitter.com&y=2@evil.example", "", "twitter"},
	// "@" outside the authority: in the path or in the query
	{"evil.example/@www.youtube.com", "", "youtube"}, {"evil.example/a@player.vimeo.com", "", "vimeo"}, {"evil.example/@twitter.com", "", "twitter"},
	{"evil.example/x?m=press@youtube.com", "", "youtube"}, {"evil.example/x?m=a@twitter.com", "", "twitter"}, {"evil.example/x?m=a@player.vimeo.com", "", "vimeo"},
	{"evil.example/x?u=//www.youtube.com", "", "youtube"}, {"evil.example/x?next=https://twitter.com", "", "twitter"},
}

func trueHostOf(h string) string {
	if i := strings.Index(h, "/"); i >= 0 {
		h = h[:i]
	}
	if i := strings.LastIndex(h, "@"); i >= 0 {
		h = h[i+1:]
	}
	return h
}

func genC19(t *rapid.T) *Case {
	g := newG(t, articleProfile())
	pageURL := g.pick("pageurl", "", "http://example.com/a/b.html", "https://www.youtube.com/some/page", "https://player.vimeo.com/x/y", "https://twitter.com/u/timeline")
	var ex c19Extra
	var b strings.Builder
	b.WriteString("<!DOCTYPE html><html><head></head><body>\n")
	b.WriteString(g.longPara(40, 80))
	n := g.intn(1, 6, "embeds")
	for i := 0; i < n; i++ {
		h := c19Hosts[g.intn(0, len(c19Hosts)-1, "host")]
		if g.chance(45, "allow") {
			h = c19Hosts[g.intn(0, 9, "allowhost")]
		}
		tok := g.tokp("id")
		scheme := g.pick("scheme", "http://", "https://", "//")
		o := c19Origin{Tok: tok, Host: trueHostOf(h.host), Service: h.service}
		hostPart := h.host
		query := ""
		if strings.Contains(hostPart, "?") {
			// name in query only: the id path goes before the query
			parts := strings.SplitN(hostPart, "?", 2)
			hostPart, query = parts[0], "?"+parts[1]
		}
		relative := g.chance(12, "relative")
		pageService := map[string]string{"https://www.youtube.com/some/page": "youtube", "https://player.vimeo.com/x/y": "vimeo", "https://twitter.com/u/timeline": "twitter"}[pageURL]
		if pageService != "" && pageService != h.family {
			// a path shape of one service resolved against another service's page has no constructed expectation
			relative = false
		}
		if relative {
			// path-relative src: the true host is the page's host
			scheme, hostPart, query = "", "", ""
			o.Host, o.Service = "", ""
			switch pageURL {
			case "https://www.youtube.com/some/page":
				o.Host, o.Service = "www.youtube.com", "youtube"
			case "https://player.vimeo.com/x/y":
				o.Host, o.Service = "player.vimeo.com", "vimeo"
			case "https://twitter.com/u/timeline":
				o.Host, o.Service = "twitter.com", "twitter"
			case "http://example.com/a/b.html":
				o.Host = "example.com"
			}
		}
		var el string
		switch h.family {
		case "youtube":
			shape := g.pick("ytshape", "/embed/ID", "/embed/ID/", "/v/ID", "/v/ID&x=1", "/embed/ID?rel=0&t=5", "/embed//ID//", "/embed/?v=ID", "/?v=ID", "?v=ID", "/embed/ID#t=30", "/v/ID#x/y")
			o.Shape = shape
			if strings.Contains(shape, "#") {
				query = ""
			}
			path := strings.ReplaceAll(shape, "ID", tok)
			src := scheme + hostPart + path
			if query != "" && strings.Contains(shape, "&") {
				query = "" // the documented "&" leniency only applies to sources without "?"
			}
			if query != "" {
				if strings.Contains(src, "?") {
					src += "&" + query[1:]
				} else {
					src += query
				}
			}
			o.Src = src
			yttag := g.pick("yttag", "iframe", "iframe", "object-data", "object-param")
			if strings.Contains(shape, "=ID") {
				yttag = "iframe" // an <object> is not kept inside the placeholder, so an id that is not in the path could not be traced
			}
			switch yttag {
			case "iframe":
				o.Tag = "iframe"
				el = `<iframe src="` + htmlEsc(src) + `" width="560" height="315"></iframe>`
			case "object-data":
				o.Tag = "object-data"
				el = `<object type="application/x-shockwave-flash" data="` + htmlEsc(src) + `"><param name="wmode" value="opaque"></object>`
			default:
				o.Tag = "object-param"
				el = `<object width="425" height="350"><param name="movie" value="` + htmlEsc(src) + `"><embed src="` + htmlEsc(src) + `"></object>`
			}
		case "vimeo":
			shape := g.pick("vmshape", "/video/ID", "/video/ID/", "/video/ID?color=fff", "/ID", "/video/?id=ID", "/?id=ID", "/video/ID#t=30s", "/video/ID%22%3E%3Cb%3E", "/video/ID%26amp%3B")
			o.Shape = shape
			if strings.Contains(shape, "#") {
				query = ""
			}
			src := scheme + hostPart + strings.ReplaceAll(shape, "ID", tok) + query
			o.Src = src
			switch {
			case strings.HasSuffix(shape, "%22%3E%3Cb%3E"):
				o.WantID = tok + `"><b>` // the id is the decoded path segment, whatever characters it holds
			case strings.HasSuffix(shape, "%26amp%3B"):
				o.WantID = tok + "&amp;"
			}
			o.Tag = "iframe"
			el = `<iframe src="` + htmlEsc(src) + `" width="640"></iframe>`
		default:
			shape := g.pick("twshape", "/user/status/ID", "/user/status/ID/", "/user/statuses/ID?s=20", "/?id=ID", "?id=ID", "/user/status/ID#x")
			o.Shape = shape
			if strings.Contains(shape, "#") {
				query = ""
			}
			src := scheme + hostPart + strings.ReplaceAll(shape, "ID", tok) + query
			o.Src = src
			if g.chance(65, "twbq") {
				o.Tag = "blockquote"
				g.push("tw")
				early := ` <a href="https://t.co/` + g.tokp("tco") + `">` + g.words(1) + `</a>`
				if g.chance(50, "hashtag") {
					early += ` <a href="https://twitter.com/hashtag/` + g.tokp("tag") + `?src=hash">#` + g.words(1) + `</a> <a href="https://twitter.com/` + g.tokp("usr") + `">@` + g.words(1) + `</a>`
				}
				// a frame inside the tweet: no extractor ever looks at its host
				if g.chance(20, "twframe") {
					early += ` <iframe src="http://evil.example/widget/` + g.tokp("fr") + `"></iframe>`
				}
				// several removable nodes next to each other (the widget script, then frames)
				if g.chance(15, "twframes2") {
					early += g.pick("twframes2k", ` <script async src="https://platform.twitter.com/widgets.js"></script><iframe src="http://evil.example/w2/`+g.tokp("fr")+`"></iframe>`,
						` <iframe src="http://evil.example/w3/`+g.tokp("fr")+`"></iframe><iframe src="http://evil.example/w4/`+g.tokp("fr")+`"></iframe>`,
						` <object data="http://evil.example/o/`+g.tokp("fr")+`"></object><iframe src="http://evil.example/w5/`+g.tokp("fr")+`"></iframe>`)
				}
				// text that looks like markup, inside a raw-text-named element of foreign content: it is
				// text in the page and must not come back as a live frame or a forged placeholder when
				// the distiller serialises its output and parses it again
				if g.chance(15, "twmxss") {
					payload := g.pick("mxsspayload",
						`&lt;div&gt;&lt;iframe src="http://evil.example/m/`+g.tokp("fr")+`"&gt;&lt;/iframe&gt;&lt;/div&gt;`,
						`&lt;div class="embed-placeholder" data-type="youtube" data-id="forged`+g.tokp("fr")+`"&gt;&lt;iframe src="http://evil.example/f"&gt;&lt;/iframe&gt;&lt;/div&gt;`)
					root, raw := g.pick("mxssroot", "math", "svg"), g.pick("mxssraw", "xmp", "noembed", "noframes", "noscript", "iframe", "style")
					early += ` <` + root + `><` + raw + `>` + payload + `</` + raw + `></` + root + `>`
				}
				if g.chance(12, "twjslast") {
					// the last anchor of the block is a script link with text only; an earlier anchor points
					// to twitter.com (a hashtag): the block names no tweet
					o.Tag, o.Service = "blockquote-script-last", ""
					el = `<blockquote class="twitter-tweet" lang="en"><p>` + g.words(g.intn(2, 10, "tww")) +
						` <a href="https://twitter.com/hashtag/` + g.tokp("tag") + `?src=hash">#` + g.words(1) + `</a></p>&mdash; ` + g.words(2) +
						` <a href="javascript:void(0)">` + g.words(2) + ` ` + tok + `</a></blockquote>`
					g.pop()
					ex.Origins = append(ex.Origins, o)
					b.WriteString(el + "\n")
					continue
				}
				el = `<blockquote class="twitter-tweet" lang="en"><p>` + g.words(g.intn(2, 10, "tww")) + early +
					`</p>&mdash; ` + g.words(2) + ` <a href="` + htmlEsc(src) + `">` + g.words(2) + `</a></blockquote>`
				g.pop()
			} else {
				o.Tag = "iframe-tweet"
				fsrc := scheme + hostPart + "/embed/index.html" + query
				o.Src = fsrc
				el = `<iframe src="` + htmlEsc(fsrc) + `" data-tweet-id="` + tok + `" class="twitter-tweet-rendered"></iframe>`
				if g.chance(25, "twnoid") {
					// a frame of the service that is no tweet (follow button, timeline): nothing names a tweet
					o.Tag = "iframe-twitter-widget"
					o.NoID = o.Service != ""
					fsrc = scheme + hostPart + g.pick("twwidget", "/widgets/follow_button.html", "/widgets/timeline/"+tok, "/"+tok) + query
					o.Src = fsrc
					el = `<iframe src="` + htmlEsc(fsrc) + `" title="widget ` + tok + `"></iframe>`
				}
			}
		}
		ex.Origins = append(ex.Origins, o)
		// an embed inside a nested structure (list item, ordinary quote), not only between paragraphs
		switch g.intn(0, 7, "embwrap") {
		case 0:
			el = "<ul><li>" + g.words(g.intn(3, 12, "embliw")) + " " + el + "</li><li>" + g.words(g.intn(3, 12, "embliw2")) + "</li></ul>"
		case 1:
			if o.Tag != "blockquote" {
				el = "<blockquote><p>" + g.words(g.intn(5, 20, "embbqw")) + "</p>" + el + "</blockquote>"
			}
		}
		b.WriteString(el + "\n")
		if g.chance(50, "between") {
			b.WriteString(g.longPara(20, 50))
		}
		if g.chance(12, "lazyframe") {
			// a frame whose lazy-loading attribute names an allow-listed player while its src does not
			ftok := g.tokp("id")
			ex.Origins = append(ex.Origins, c19Origin{Tok: ftok, Host: "ads.example.net", Service: "", Tag: "iframe-lazy", Shape: "data-src", Src: "https://ads.example.net/frame/" + ftok})
			b.WriteString(`<iframe src="https://ads.example.net/frame/` + ftok + `" ` + g.pick("lazyattr", "data-src", "data-lazy-src", "data-original") + `="https://www.youtube.com/embed/` + ftok + `" width="560" height="315"></iframe>` + "\n")
		}
		if g.chance(20, "otherframe") {
			switch g.intn(0, 3, "otherframeplace") {
			case 0:
				// a frame inside the <picture> of a figure (pictures are copied into the output)
				b.WriteString(`<figure><picture><source srcset="/img/` + g.tokp("i") + `.webp"><img src="/img/` + g.tokp("i") + `.png" width="800" height="600">` + strings.TrimSpace(g.otherFrame()) + `</picture><figcaption>` + g.words(4) + "</figcaption></figure>\n")
			case 1:
				b.WriteString("<figure>" + strings.TrimSpace(g.otherFrame()) + `<img src="/img/` + g.tokp("i") + `.png" width="800" height="600"><figcaption>` + g.words(4) + "</figcaption></figure>\n")
			default:
				b.WriteString(g.otherFrame())
			}
		}
	}
	b.WriteString(g.longPara(30, 60))
	b.WriteString("</body></html>")
	c := &Case{Property: "C19", HTML: b.String(), Opts: OptSpec{URL: pageURL}}
	c.SetExtra(ex)
	return c
}

func checkC19(c *Case) (*Violation, caseInfo) {
	var info caseInfo
	var ex c19Extra
	c.GetExtra(&ex)
	_, out := applyHTML(c.HTML, c.Opts)
	if out.Panicked || out.Err != nil || out.Res == nil {
		info.Skip = "apply-failed"
		return nil, info
	}
	byTok := map[string]*c19Origin{}
	for i := range ex.Origins {
		byTok[ex.Origins[i].Tok] = &ex.Origins[i]
	}
	var viol *Violation
	accepted := map[string]bool{}
	for _, ph := range findAll(out.Res.Node, isPlaceholder) {
		dtype, did := attrVal(ph, "data-type"), attrVal(ph, "data-id")
		var o *c19Origin
		for _, tk := range textTokens(did + " " + render(ph)) {
			if x, ok := byTok[tk]; ok {
				o = x
				break
			}
		}
		if o == nil {
			if viol == nil {
				viol = violationf("C19 placeholder-without-origin", "placeholder data-type=%q data-id=%q cannot be traced to an embed of the page: %s", dtype, did, truncate(render(ph), 300))
			}
			continue
		}
		accepted[o.Tok] = true
		info.Classes = append(info.Classes, "accepted:"+o.Tag)
		if o.Tag == "blockquote" {
			for _, fr := range findAll(ph, func(n *html.Node) bool { return isElem(n, "iframe", "object", "embed") }) {
				if viol == nil {
					viol = violationf("C19 foreign-frame-inside-tweet-placeholder tag="+fr.Data, "<%s> from inside the tweet survives in the placeholder: %s", fr.Data, truncate(render(fr), 300))
				}
			}
		}
		switch {
		case o.NoID:
			if viol == nil {
				viol = violationf("C19 placeholder-for-frame-without-id tag="+o.Tag, "%s with source %q names no tweet, yet it became a placeholder with data-id=%q", o.Tag, o.Src, did)
			}
		case o.Service == "":
			if viol == nil {
				viol = violationf("C19 non-allow-listed-host-accepted tag="+o.Tag, "%s with source %q (true host %q) became an embed placeholder (data-type=%q)", o.Tag, o.Src, o.Host, dtype)
			}
		case dtype != o.Service:
			if viol == nil {
				viol = violationf("C19 wrong-data-type", "%s with source %q: data-type=%q, expected %q", o.Tag, o.Src, dtype, o.Service)
			}
		case strings.Contains(o.Shape, "=ID") && o.Tag != "iframe-tweet":
			// the id is not in the path of this source; whatever id is reported must at least be a
			// real, non-empty path segment of the source or of the page URL it was resolved against
			isSeg := false
			for _, seg := range strings.Split(strings.SplitN(o.Src, "?", 2)[0]+"/"+c.Opts.URL, "/") {
				if seg != "" && seg == did {
					isSeg = true
				}
			}
			if !isSeg && viol == nil {
				viol = violationf("C19 made-up-data-id shape="+o.Shape+" service="+o.Service, "%s with source %q: data-id=%q is not a path segment of the source", o.Tag, o.Src, did)
			}
		case o.WantID != "" && did == o.WantID:
			// percent-escapes of the id segment decode; the attribute holds the characters as they are
		case did != o.Tok:
			if viol == nil {
				viol = violationf("C19 wrong-data-id shape="+o.Shape+" service="+o.Service, "%s with source %q: data-id=%q, expected %q", o.Tag, o.Src, did, o.Tok)
			}
		}
	}
	// iframes outside placeholders must not exist at all (no tables/captions are generated here)
	for _, fr := range findAll(out.Res.Node, func(n *html.Node) bool { return isElem(n, "iframe", "object", "embed") }) {
		if hasAncestor(fr, isPlaceholder) {
			continue
		}
		if viol == nil {
			viol = violationf("C19 frame-outside-placeholder tag="+fr.Data, "<%s> survives outside an embed placeholder: %s", fr.Data, truncate(render(fr), 300))
		}
	}
	decoy, good := false, false
	for _, o := range ex.Origins {
		if o.Service == "" {
			decoy = true
			info.Classes = append(info.Classes, "decoy-present")
		} else if accepted[o.Tok] {
			good = true
		} else {
			info.Classes = append(info.Classes, fmt.Sprintf("allow-listed-not-embedded:%s:%s", o.Tag, o.Shape))
		}
	}
	info.Classes = dedup(info.Classes)
	info.NonTrivial = decoy && good
	return viol, info
}

func TestC19(t *testing.T) { runProp(t, genC19, checkC19) }
