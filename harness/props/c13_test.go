package props

import (
	"encoding/json"
	"fmt"
	"strings"
	"testing"
	"time"

	distiller "github.com/markusmobius/go-domdistiller"
	"golang.org/x/net/html"
	"pgregory.net/rapid"
)

// C13 — options do only what they say.

func init() { register("C13", checkC13) }

func genC13(t *rapid.T) *Case {
	c := &Case{Property: "C13"}
	if rapid.IntRange(0, 9).Draw(t, "k") < 6 {
		pg := genPager(t)
		c.HTML = pg.HTML
		c.Opts.URL = pg.PageURL
		c.Kind = "pager"
	} else {
		p := carrierProfile()
		p.Core = append(append([]wc{}, p.Core...), wc{"dtable", 8}, wc{"figure", 6}, wc{"img", 6}, wc{"separator", 10}, wc{"uspacer", 4})
		p.Top = append(append([]wc{}, p.Top...), wc{"separator", 8})
		g := newG(t, p)
		c.HTML = g.page()
		if rapid.IntRange(0, 2).Draw(t, "leadimgs") == 0 {
			// several lead-image candidates (bare image, figure, picture) before the first text
			lead := ""
			for i := rapid.IntRange(2, 4).Draw(t, "nlead"); i > 0; i-- {
				lead += g.block(g.pick("leadk", "img", "figure", "picture", "img"))
			}
			c.HTML = strings.Replace(c.HTML, "<body>\n", "<body>\n"+lead, 1)
		}
		if rapid.IntRange(0, 2).Draw(t, "oddimgs") == 0 {
			// an image with a very long address, and one whose src is repeated among its srcset candidates
			long := "/cdn/" + strings.Repeat("abcdefghij", rapid.IntRange(13, 30).Draw(t, "longurl")) + "/" + g.tokp("i") + ".png?sig=" + strings.Repeat("0123456789", 6)
			dup := "/img/" + g.tokp("i") + ".png"
			extra := g.para() + `<img src="` + long + `" width="800" height="600">` + "\n" + g.para() +
				`<img src="` + dup + `" srcset="` + dup + ` 1x, /img/` + g.tokp("i") + `.png 2x, /img/` + g.tokp("i") + `.png 3x" width="800" height="600">` + "\n" + g.para()
			c.HTML = strings.Replace(c.HTML, "</body>", extra+"</body>", 1)
		}
		if rapid.IntRange(0, 2).Draw(t, "c18table") == 0 {
			// a table from the feature space of C18 (roles, datatable, nesting, shapes, headers ...)
			v := c18Decode(rapid.IntRange(0, c18Total()-1).Draw(t, "c18vec"))
			c.HTML = strings.Replace(c.HTML, "</body>", v.renderTableWith("cw", "T9")+"\n"+g.para()+"</body>", 1)
		}
		c.Opts.URL = genPageURL(t)
		c.Kind = "article"
	}
	return c
}

func splitCanon(s string) (rest string, pag string) {
	var m map[string]json.RawMessage
	if json.Unmarshal([]byte(s), &m) != nil {
		return s, ""
	}
	pag = string(m["PaginationInfo"])
	delete(m, "PaginationInfo")
	b, _ := json.Marshal(m)
	return string(b), pag
}

func checkC13(c *Case) (*Violation, caseInfo) {
	var info caseInfo
	if c.Opts.URL == "" {
		info.Skip = "no-url-in-case"
		return nil, info
	}
	const emptyPag = `{"NextPage":"","PrevPage":""}`
	var viol *Violation
	anyPag := false
	var mediaRetained bool
	for _, url := range []string{"", c.Opts.URL} {
		var baseRest string
		// a caller typically builds the URL once and reuses it: every configuration of this loop
		// shares one *url.URL
		sharedURL := OptSpec{URL: url}.BuildURL()
		wantURL := ""
		if sharedURL != nil {
			wantURL = sharedURL.String()
		}
		for algo := uint(0); algo < 2; algo++ {
			for _, skip := range []bool{false, true} {
				var first, firstPag string
				for flags := uint(0); flags < 32; flags++ {
					o := OptSpec{URL: url, Algo: algo, Skip: skip, LogFlags: flags}
					opts := o.Build()
					opts.OriginalURL = sharedURL
					doc, perr := html.Parse(strings.NewReader(c.HTML))
					if perr != nil {
						info.Skip = "parse-failed"
						return nil, info
					}
					out := guarded(0, func() (*distiller.Result, error) { return distiller.Apply(doc, opts) })
					if out.Panicked || out.Err != nil || out.Res == nil {
						info.Skip = "apply-failed"
						return nil, info
					}
					cfg := fmt.Sprintf("url=%v algo=%d skip=%v flags=%d", url != "", algo, skip, flags)
					rest, pag := splitCanon(canonical(out.Res))
					// (4) Result.URL
					if out.Res.URL != wantURL && viol == nil {
						viol = violationf("C13 result-url", "Result.URL=%q, expected %q (%s)", out.Res.URL, wantURL, cfg)
					}
					// (3) PaginationInfo empty when skipped or no URL
					if (skip || url == "") && pag != emptyPag && viol == nil {
						viol = violationf("C13 pagination-not-empty skip="+fmt.Sprint(skip)+" url="+fmt.Sprint(url != ""), "PaginationInfo=%s although pagination is skipped or no page URL is given (%s)", pag, cfg)
					}
					if pag != emptyPag {
						anyPag = true
					}
					// (1) log flags change nothing
					if flags == 0 {
						first, firstPag = rest, pag
						if strings.Contains(rest, "<table") || strings.Contains(rest, "<img") {
							mediaRetained = true
						}
					} else if (rest != first || pag != firstPag) && viol == nil {
						viol = violationf("C13 log-flags-change-result flags="+fmt.Sprint(flags)+" fields="+diffFields(canonJoin(first, firstPag), canonJoin(rest, pag)),
							"result with LogFlags=%d differs from LogFlags=0 (%s):\n%s", flags, cfg, diffCanon(canonJoin(first, firstPag), canonJoin(rest, pag)))
					}
					// (2) algorithm and SkipPagination affect only PaginationInfo
					if baseRest == "" {
						baseRest = rest
					} else if rest != baseRest && flags == 0 && viol == nil {
						viol = violationf("C13 pagination-option-changes-content fields="+diffFields(baseRest, rest),
							"result outside PaginationInfo changes with algo/skip (%s):\n%s", cfg, diffCanon(baseRest, rest))
					}
					if viol != nil {
						return viol, info
					}
				}
			}
		}
	}
	// ApplyForURL: the fetched address is the page URL, whatever OriginalURL the caller's options hold
	if server, err := pageServer(); err == nil && server != nil {
		path := "/c13/" + shortHash(c.HTML) + "/page.html"
		srvPages.Store(path, c.HTML)
		addr := server.URL + path
		if h := shortHash(c.HTML); h[0]%3 == 0 {
			// every third page is requested through an address that redirects to it: the supplied
			// address stays the page URL
			addr = server.URL + "/redir" + path
			info.Classes = append(info.Classes, "applyforurl-through-redirect")
		}
		if h := shortHash(c.HTML); h[len(h)-1]%2 == 0 {
			// every other page is addressed with a fragment
			addr += "#section-2"
			info.Classes = append(info.Classes, "applyforurl-with-fragment")
		}
		skipVia := shortHash(c.HTML)[1]%2 == 0 // every other page: the caller asks to skip pagination
		other := OptSpec{URL: c.Opts.URL, Algo: 1, Skip: skipVia}.Build()
		viaURL := guarded(0, func() (*distiller.Result, error) { return distiller.ApplyForURL(addr, 10*time.Second, other) })
		_, viaReader := applyHTML(c.HTML, OptSpec{URL: addr, Algo: 1, Skip: skipVia})
		if !viaURL.Panicked && viaURL.Err == nil && viaURL.Res != nil && viaReader.Res != nil {
			info.Classes = append(info.Classes, "applyforurl-checked")
			if viaURL.Res.URL != addr {
				return violationf("C13 applyforurl-result-url", "ApplyForURL(%q) with Options.OriginalURL=%q returned Result.URL=%q", addr, c.Opts.URL, viaURL.Res.URL), info
			}
			if a, b := canonical(viaURL.Res), canonical(viaReader.Res); a != b {
				return violationf("C13 applyforurl-differs-from-reader fields="+diffFields(b, a), "ApplyForURL(%q) differs from distilling the same bytes with that address as page URL:\n%s", addr, diffCanon(b, a)), info
			}
		}
	}
	// nil options behave like zero options
	_, o1 := applyHTML(c.HTML, OptSpec{Nil: true})
	_, o2 := applyHTML(c.HTML, OptSpec{})
	if o1.Res != nil && o2.Res != nil && canonical(o1.Res) != canonical(o2.Res) {
		return violationf("C13 nil-options-differ", "nil options give a different result than zero options:\n%s", diffCanon(canonical(o1.Res), canonical(o2.Res))), info
	}
	info.Classes = append(info.Classes, "kind:"+c.Kind)
	if anyPag {
		info.Classes = append(info.Classes, "pagination-found")
	}
	if mediaRetained {
		info.Classes = append(info.Classes, "table-or-image-retained")
	}
	info.NonTrivial = anyPag || mediaRetained
	return nil, info
}

func canonJoin(rest, pag string) string {
	var m map[string]json.RawMessage
	json.Unmarshal([]byte(rest), &m)
	if m == nil {
		m = map[string]json.RawMessage{}
	}
	m["PaginationInfo"] = json.RawMessage(pag)
	b, _ := json.Marshal(m)
	return string(b)
}

func TestC13(t *testing.T) { runProp(t, genC13, checkC13) }
