// Package props holds the generators, oracles and property checks that decide
// the go-domdistiller properties C01..C20 (see /verif/DESIGN.md).
package props

import (
	"crypto/sha1"
	"encoding/binary"
	"encoding/hex"
	"encoding/json"
	"fmt"
	"golang.org/x/text/unicode/norm"
	"hash/fnv"
	nurl "net/url"
	"os"
	"path/filepath"
	"runtime/debug"
	"sort"
	"strings"
	"sync"
	"time"

	distiller "github.com/markusmobius/go-domdistiller"
	"golang.org/x/net/html"
)

// ---------------------------------------------------------------------------
// Cases, violations, replay files
// ---------------------------------------------------------------------------

// OptSpec is a serialisable description of a distiller.Options value.
type OptSpec struct {
	Nil      bool   `json:"nil,omitempty"`
	LogFlags uint   `json:"log_flags,omitempty"`
	URL      string `json:"url,omitempty"`      // "" means OriginalURL == nil
	URLMode  string `json:"url_mode,omitempty"` // "", "parse" (default) or "raw:<json of url.URL fields>"
	Skip     bool   `json:"skip,omitempty"`
	Algo     uint   `json:"algo,omitempty"`
}

// RawURL is used for hand-built *url.URL values that url.Parse would never produce.
type RawURL struct {
	Scheme, Opaque, Host, Path, RawPath, RawQuery, Fragment string
	User                                                    string
	ForceQuery                                              bool
}

func (o OptSpec) Build() *distiller.Options {
	if o.Nil {
		return nil
	}
	opts := &distiller.Options{
		LogFlags:       distiller.LogFlag(o.LogFlags),
		SkipPagination: o.Skip,
		PaginationAlgo: distiller.PaginationAlgo(o.Algo),
	}
	opts.OriginalURL = o.BuildURL()
	return opts
}

func (o OptSpec) BuildURL() *nurl.URL {
	if strings.HasPrefix(o.URLMode, "raw:") {
		var r RawURL
		if err := json.Unmarshal([]byte(o.URLMode[4:]), &r); err == nil {
			u := &nurl.URL{Scheme: r.Scheme, Opaque: r.Opaque, Host: r.Host, Path: r.Path,
				RawPath: r.RawPath, RawQuery: r.RawQuery, Fragment: r.Fragment, ForceQuery: r.ForceQuery}
			if r.User != "" {
				u.User = nurl.User(r.User)
			}
			return u
		}
	}
	if o.URL == "" {
		return nil
	}
	u, err := nurl.Parse(o.URL)
	if err != nil {
		return nil
	}
	return u
}

// Case is the unit that is generated, checked, shrunk and replayed.
type Case struct {
	Property  string          `json:"property"`
	Kind      string          `json:"kind,omitempty"`
	HTML      string          `json:"html,omitempty"`
	Opts      OptSpec         `json:"opts"`
	Extra     json.RawMessage `json:"extra,omitempty"`
	Violation string          `json:"violation,omitempty"`
	Signature string          `json:"signature,omitempty"`
}

func (c *Case) SetExtra(v interface{}) {
	b, err := json.Marshal(v)
	if err != nil {
		panic(err)
	}
	c.Extra = b
}

func (c *Case) GetExtra(v interface{}) {
	if len(c.Extra) == 0 {
		return
	}
	if err := json.Unmarshal(c.Extra, v); err != nil {
		panic(fmt.Sprintf("bad extra in case: %v", err))
	}
}

// Violation is what an oracle returns when a property is broken.
type Violation struct {
	Signature string // stable identification of the root cause (used for known findings)
	Detail    string
}

func violationf(sig string, format string, args ...interface{}) *Violation {
	return &Violation{Signature: sig, Detail: fmt.Sprintf(format, args...)}
}

func verifDir() string {
	if d := os.Getenv("VERIF_DIR"); d != "" {
		return d
	}
	return "/verif"
}

// pendingReplayPath is where the most recent failing case of this process is written; rapid
// re-runs the minimal case last, so after shrinking the file holds the shrunk case.
func pendingReplayPath(property string) string {
	if p := os.Getenv("VERIF_PENDING"); p != "" {
		return p
	}
	return filepath.Join(verifDir(), ".build", "pending-"+property+".json")
}

func saveFailingCase(c *Case, v *Violation) string {
	cc := *c
	cc.Violation = v.Detail
	cc.Signature = v.Signature
	b, _ := json.MarshalIndent(&cc, "", " ")
	p := pendingReplayPath(c.Property)
	os.MkdirAll(filepath.Dir(p), 0o755)
	os.WriteFile(p, b, 0o644)
	return p
}

// ---------------------------------------------------------------------------
// Known findings
// ---------------------------------------------------------------------------

type finding struct {
	Status    string `json:"status"` // "known" | "fixed"
	Property  string `json:"property"`
	Signature string `json:"signature,omitempty"`
	Commit    string `json:"commit,omitempty"`
	What      string `json:"what"`
}

var (
	knownOnce sync.Once
	knownList []finding
)

func loadKnown() {
	knownOnce.Do(func() {
		p := os.Getenv("VERIF_KNOWN")
		if p == "" {
			p = filepath.Join(verifDir(), "known-findings.json")
		}
		b, err := os.ReadFile(p)
		if err != nil {
			return
		}
		var f struct {
			Findings []finding `json:"findings"`
		}
		if json.Unmarshal(b, &f) == nil {
			knownList = f.Findings
		}
	})
}

// isKnown reports whether a violation of property with this signature is a recorded,
// unrepaired finding ("fixed" entries suppress nothing).
func isKnown(property, signature string) bool {
	loadKnown()
	for _, f := range knownList {
		if f.Status == "known" && f.Property == property && f.Signature != "" && f.Signature == signature {
			return true
		}
	}
	return false
}

// ---------------------------------------------------------------------------
// Statistics -> evidence
// ---------------------------------------------------------------------------

type statsT struct {
	mu         sync.Mutex
	Evals      int64             `json:"evaluations"`
	Classes    map[string]int64  `json:"classes"`
	Known      map[string]int64  `json:"known"`
	Samples    []json.RawMessage `json:"samples"`
	NTSamples  []json.RawMessage `json:"nontrivial_samples"`
	Notes      map[string]string `json:"notes"`
	Exhaustive bool              `json:"exhaustive"`
	Skipped    int64             `json:"skipped"`
	nt         map[uint64]struct{}
}

var st = &statsT{Classes: map[string]int64{}, Known: map[string]int64{}, Notes: map[string]string{}, nt: map[uint64]struct{}{}}

func (s *statsT) Eval() {
	s.mu.Lock()
	s.Evals++
	s.mu.Unlock()
}

func (s *statsT) Skip(why string) {
	s.mu.Lock()
	s.Skipped++
	s.Classes["skipped:"+why]++
	s.mu.Unlock()
}

func (s *statsT) Class(names ...string) {
	s.mu.Lock()
	for _, n := range names {
		s.Classes[n]++
	}
	s.mu.Unlock()
}

func (s *statsT) ClassN(name string, n int) {
	s.mu.Lock()
	s.Classes[name] += int64(n)
	s.mu.Unlock()
}

func (s *statsT) KnownHit(sig string) {
	s.mu.Lock()
	s.Known[sig]++
	s.mu.Unlock()
}

func (s *statsT) Note(k, v string) {
	s.mu.Lock()
	s.Notes[k] = v
	s.mu.Unlock()
}

func hash64(parts ...string) uint64 {
	h := fnv.New64a()
	for _, p := range parts {
		h.Write([]byte(p))
		h.Write([]byte{0})
	}
	return h.Sum64()
}

// NonTrivial records a distinct non-trivial case by the hash of its canonical rendering.
func (s *statsT) NonTrivial(parts ...string) {
	k := hash64(parts...)
	s.mu.Lock()
	s.nt[k] = struct{}{}
	s.mu.Unlock()
}

func truncate(sv string, n int) string {
	if len(sv) <= n {
		return sv
	}
	return sv[:n] + fmt.Sprintf("...[+%d bytes]", len(sv)-n)
}

// Sample keeps a few cases (written out) for the evidence file.
func (s *statsT) Sample(nontrivial bool, v interface{}) {
	s.mu.Lock()
	defer s.mu.Unlock()
	lst := &s.Samples
	if nontrivial {
		lst = &s.NTSamples
	}
	if len(*lst) >= 3 {
		return
	}
	b, err := json.Marshal(v)
	if err != nil {
		return
	}
	*lst = append(*lst, b)
}

func (s *statsT) sampleWanted(nontrivial bool) bool {
	s.mu.Lock()
	defer s.mu.Unlock()
	if nontrivial {
		return len(s.NTSamples) < 3
	}
	return len(s.Samples) < 3
}

// SampleCase stores a truncated rendering of a case.
func (s *statsT) SampleCase(nontrivial bool, c *Case, note string) {
	if !s.sampleWanted(nontrivial) {
		return
	}
	s.Sample(nontrivial, map[string]interface{}{
		"kind": c.Kind, "html": truncate(c.HTML, 700), "opts": c.Opts, "extra": json.RawMessage(truncateJSON(c.Extra, 500)), "note": note,
	})
}

func truncateJSON(b json.RawMessage, n int) json.RawMessage {
	if len(b) == 0 {
		return json.RawMessage("null")
	}
	if len(b) <= n {
		return b
	}
	q, _ := json.Marshal(truncate(string(b), n))
	return q
}

func (s *statsT) write() {
	p := os.Getenv("VERIF_STATS")
	if p == "" {
		return
	}
	s.mu.Lock()
	defer s.mu.Unlock()
	type out struct {
		*statsT
		Distinct int `json:"distinct_nontrivial_local"`
	}
	b, _ := json.Marshal(out{s, len(s.nt)})
	os.WriteFile(p, b, 0o644)
	hb := make([]byte, 0, 8*len(s.nt))
	keys := make([]uint64, 0, len(s.nt))
	for k := range s.nt {
		keys = append(keys, k)
	}
	sort.Slice(keys, func(i, j int) bool { return keys[i] < keys[j] })
	for _, k := range keys {
		hb = binary.LittleEndian.AppendUint64(hb, k)
	}
	os.WriteFile(p+".hashes", hb, 0o644)
}

// ---------------------------------------------------------------------------
// Calling the distiller safely
// ---------------------------------------------------------------------------

type callOutcome struct {
	Res      *distiller.Result
	Err      error
	Panicked bool
	PanicVal string
	Stack    string
	Hung     bool
}

// guarded runs fn under recover with a watchdog.
func guarded(timeout time.Duration, fn func() (*distiller.Result, error)) callOutcome {
	ch := make(chan callOutcome, 1)
	go func() {
		var out callOutcome
		defer func() {
			if r := recover(); r != nil {
				out.Panicked = true
				out.PanicVal = fmt.Sprint(r)
				out.Stack = string(debug.Stack())
			}
			ch <- out
		}()
		out.Res, out.Err = fn()
	}()
	if timeout <= 0 {
		return <-ch
	}
	select {
	case o := <-ch:
		return o
	case <-time.After(timeout):
		return callOutcome{Hung: true}
	}
}

// applyHTML parses html and runs Apply. A panic is not this property's business unless it is
// C01's: it is returned so the caller can skip the case.
func applyHTML(src string, o OptSpec) (*html.Node, callOutcome) {
	doc, err := html.Parse(strings.NewReader(src))
	if err != nil {
		return nil, callOutcome{Err: err}
	}
	out := guarded(0, func() (*distiller.Result, error) { return distiller.Apply(doc, o.Build()) })
	return doc, out
}

// firstRepoFrame extracts the first stack frame inside the distiller module (for signatures).
func firstRepoFrame(stack string) string {
	lines := strings.Split(stack, "\n")
	for _, l := range lines {
		l = strings.TrimSpace(l)
		if strings.HasPrefix(l, "github.com/markusmobius/go-domdistiller") && !strings.Contains(l, "verifharness") {
			if i := strings.LastIndex(l, "("); i > 0 {
				l = l[:i]
			}
			l = strings.TrimPrefix(l, "github.com/markusmobius/go-domdistiller/")
			return l
		}
	}
	return "unknown-frame"
}

func panicClass(v string) string {
	switch {
	case strings.Contains(v, "nil pointer"):
		return "nil-deref"
	case strings.Contains(v, "slice bounds"):
		return "slice-bounds"
	case strings.Contains(v, "index out of range"):
		return "index-range"
	case strings.Contains(v, "html: "):
		return "html-tree-misuse"
	default:
		if len(v) > 40 {
			v = v[:40]
		}
		return v
	}
}

func shortHash(s string) string {
	h := sha1.Sum([]byte(s))
	return hex.EncodeToString(h[:6])
}

// refParse is the harness's reference for "the tree parsed from these bytes" for documents that are
// valid UTF-8 (every generated document is): the text is brought to NFC after soft hyphens are removed
// (the normalisation the library documents for its byte-stream entry points) and parsed by x/net/html.
// It never guesses an encoding.
func refParse(page string) (*html.Node, error) {
	norm1 := norm.NFD.String(page)
	norm1 = strings.ReplaceAll(norm1, "\u00ad", "")
	return html.Parse(strings.NewReader(norm.NFC.String(norm1)))
}

// sparseNonASCIIParagraph is English prose with a single non-ASCII word: the kind of page whose
// encoding a statistical charset guesser gets wrong (or, for short pages, cannot decide).
func sparseNonASCIIParagraph(special string, long bool) string {
	prose := "The quick brown fox jumps over the lazy dog while the committee considered whether the proposal should be adopted by the general assembly later this year and the members agreed that further discussion would be necessary before any decision could be made about the matter at hand "
	if !long {
		prose = "The committee considered whether the proposal should be adopted later this year "
	}
	return "<p>" + prose + "We went to the " + special + " yesterday " + prose + "</p>\n"
}
