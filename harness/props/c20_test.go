package props

import (
	"fmt"
	"regexp"
	"strings"
	"testing"

	"pgregory.net/rapid"
)

// C20 — unlikely-content pruning applies only if enough content remains, else fallback.

func init() { register("C20", checkC20) }

type c20Extra struct {
	Del string `json:"del"` // page with the marked subtrees deleted
	Ren string `json:"ren"` // page with the markers renamed to neutral values
	// Nested: where the one marked subtree that is not a block between blocks stands ("" = none):
	// inside a cell of a data table, inside a figure caption, alone inside a wrapper in running text,
	// or inside a by-line element. These structures are copied or judged as a whole.
	Nested string `json:"nested,omitempty"`
	// Rescued: number of elements whose class/id holds an unlikely keyword and a rescue keyword; they are
	// no unlikely candidates, and both reference pages have their class/id neutralised.
	Rescued int `json:"rescued,omitempty"`
}

var c20Markers = []string{"sidebar", "footer", "menu", "banner", "breadcrumbs", "related", "social", "sponsor", "popup", "pager", "rss", "extra",
	"combx", "community", "cover-wrap", "disqus", "gdpr", "header", "legends", "remark", "replies", "shoutbox", "skyscraper", "supplemental",
	"ad-break", "agegate", "pagination", "yom-remote", "ai2html", "x-ad-y"}

var c20Roles = []string{"menu", "menubar", "complementary", "navigation", "alert", "alertdialog", "dialog"}

const (
	c20MarkOpen  = "\x01" // followed by the marker attribute text up to \x02
	c20MarkClose = "\x02"
	c20SubOpen   = "\x03"
	c20SubClose  = "\x04"
	// attributes of an element that is NOT an unlikely candidate although an unlikely keyword occurs in
	// them, because a rescue keyword (and|article|body|column|content|main|shadow, any case) occurs too:
	// kept in the page itself, neutralised in both reference pages
	c20ResOpen  = "\x05"
	c20ResClose = "\x06"
)

var rxC20Res = regexp.MustCompile("\x05([^\x06]*)\x06")
var rxC20Val = regexp.MustCompile(`="[^"]*"`)

func c20Neutral(m string) string { return rxC20Val.ReplaceAllString(m[1:len(m)-1], `="zzneutral"`) }

var rxC20Attr = regexp.MustCompile("\x01([^\x02]*)\x02")
var rxC20Sub = regexp.MustCompile("(?s)\x03.*?\x04")

func c20Variants(raw string) (d, del, ren string) {
	d = rxC20Attr.ReplaceAllString(raw, "$1")
	d = rxC20Res.ReplaceAllString(d, "$1")
	d = strings.NewReplacer(c20SubOpen, "", c20SubClose, "").Replace(d)
	raw = rxC20Res.ReplaceAllStringFunc(raw, c20Neutral)
	del = rxC20Sub.ReplaceAllString(raw, "")
	del = rxC20Attr.ReplaceAllString(del, "$1")
	ren = rxC20Attr.ReplaceAllStringFunc(raw, func(m string) string {
		inner := m[1 : len(m)-1]
		// keep the attribute names, neutralise the values
		return regexp.MustCompile(`="[^"]*"`).ReplaceAllString(inner, `="zzneutral"`)
	})
	ren = strings.NewReplacer(c20SubOpen, "", c20SubClose, "").Replace(ren)
	return
}

func (g *G) c20Marker() string {
	switch g.weighted("mk", []wc{{"class", 42}, {"id", 23}, {"role", 22}, {"both", 5}, {"role+okclass", 8}}) {
	case "role+okclass":
		// a role marker next to a class/id that the class/id rule would let pass: the role rule has no such exemption
		return ` role="` + g.pick("mrole", c20Roles...) + `"` + g.pick("mokcls", ` class="main-nav"`, ` id="modal-content"`, ` class="article-tools"`, ` class="column shadow"`)
	case "class":
		m := g.pick("mcls", c20Markers...)
		switch g.intn(0, 3, "mdec") {
		case 1:
			m = "x-" + m
		case 2:
			m = m + "-box"
		case 3:
			m = "zz " + m + " wide"
		}
		return ` class="` + m + `"`
	case "id":
		m := g.pick("mid", c20Markers...)
		if g.chance(40, "middec") {
			m = "site_" + m + "_1"
		}
		return ` id="` + m + `"`
	case "role":
		return ` role="` + g.pick("mrole", c20Roles...) + `"`
	default:
		return ` class="` + g.pick("mcls", c20Markers...) + `" id="` + g.pick("mid", c20Markers...) + `"`
	}
}

var c20RescueWords = []string{"and", "article", "body", "column", "content", "main", "shadow"}

// c20RescuedAttr: class/id text holding an unlikely keyword together with a rescue keyword, in the
// spellings found in the wild (kebab, camel, Pascal/ASP.NET, upper case, the keyword "and" hidden
// inside another word).
func (g *G) c20RescuedAttr() string {
	m := g.pick("rmk", c20Markers[:24]...)
	r := g.pick("rword", c20RescueWords...)
	switch g.pick("rcase", "lower", "Pascal", "Pascal", "UPPER") {
	case "Pascal":
		r = strings.ToUpper(r[:1]) + r[1:]
		m = strings.ToUpper(m[:1]) + m[1:]
	case "UPPER":
		r = strings.ToUpper(r)
	}
	if r == "and" && g.chance(60, "rhiddenand") {
		r = g.pick("randword", "brand", "expandable", "standard", "landing")
	}
	switch g.pick("rform", "one-class", "two-classes", "id+class", "id") {
	case "one-class":
		return ` class="` + r + g.pick("rsep", "-", "_", "") + m + `"`
	case "two-classes":
		return ` class="` + m + " " + r + `"`
	case "id+class":
		return ` id="` + r + `" class="has-` + m + `"`
	default:
		return ` id="ctl00_` + r + `_` + m + `"`
	}
}

// c20Rescued: a block of article text in such an element.
func (g *G) c20Rescued() string {
	var inner string
	for words := g.intn(40, 220, "rwords"); words > 0; {
		k := min(words, g.intn(30, 110, "rpw"))
		inner += "<p>" + g.inline(k) + "</p>\n"
		words -= k
	}
	tag := g.pick("rtag", "div", "section", "div")
	return "<" + tag + c20ResOpen + g.c20RescuedAttr() + c20ResClose + ">" + inner + "</" + tag + ">\n"
}

// rewritten emits constructs the first pass rewrites on its clone.
func (g *G) c20Rewritten() string {
	switch g.pick("rw", "font", "js", "figure", "none", "none") {
	case "font":
		return `<p><font color="red">` + g.words(g.intn(3, 12, "fw")) + `</font> ` + g.words(g.intn(20, 40, "fw2")) + "</p>\n"
	case "js":
		return `<p>` + g.words(g.intn(10, 30, "jw")) + ` <a href="javascript:void(0)">` + g.words(2) + `</a> ` + g.words(g.intn(10, 30, "jw2")) + "</p>\n"
	case "figure":
		return `<figure><img src="data:image/gif;base64,R0lGODlhAQABAAAAACw=" data-src="` + g.url("img") + `"><noscript><img src="` + g.url("img") + `"></noscript><figcaption>` + g.words(4) + "</figcaption></figure>\n"
	}
	return ""
}

func (g *G) c20Marked() string {
	tag := g.pick("mtag", "div", "section", "ul", "p", "div")
	var inner string
	// an inline marked element in the middle of a paragraph (share buttons, inline notes)
	if g.chance(15, "minline") {
		m := c20SubOpen + "<span" + c20MarkOpen + g.c20Marker() + c20MarkClose + ">" + g.words(g.intn(2, 25, "minlinew")) + "</span>" + c20SubClose
		return "<p>" + g.inline(g.intn(20, 60, "minl1")) + " " + m + " " + g.inline(g.intn(20, 60, "minl2")) + "</p>\n"
	}
	// a marked subtree that adds no content words, only something visible (an image, a video, an
	// embed, a data table or link-dense text that is not classified as content)
	if g.chance(25, "mwordless") {
		if g.chance(30, "mwlself") {
			// the marker sits on the media element itself, not on a wrapper
			mark := c20MarkOpen + g.c20Marker() + c20MarkClose
			switch g.pick("mwlselfk", "img", "figure", "iframe") {
			case "img":
				return c20SubOpen + `<img` + mark + ` src="` + g.url("img") + `" width="800" height="600">` + "\n" + c20SubClose
			case "figure":
				return c20SubOpen + `<figure` + mark + `><img src="` + g.url("img") + `" width="800" height="600"><figcaption>` + g.words(4) + "</figcaption></figure>\n" + c20SubClose
			default:
				return c20SubOpen + `<iframe` + mark + ` src="http://www.youtube.com/embed/` + g.tokp("yt") + `"></iframe>` + "\n" + c20SubClose
			}
		}
		switch g.pick("mwl", "img", "img", "video", "youtube", "dtable", "links") {
		case "img":
			inner = `<img src="` + g.url("img") + `" width="800" height="600">`
		case "video":
			inner = `<video src="` + g.url("v") + `" poster="` + g.url("img") + `"></video>`
		case "youtube":
			inner = `<iframe src="http://www.youtube.com/embed/` + g.tokp("yt") + `"></iframe>`
		case "dtable":
			inner = g.dataTable()
		default:
			inner = "<ul>"
			for i := g.intn(2, 5, "mlk"); i > 0; i-- {
				inner += `<li><a href="/x/` + g.tokp("l") + `">` + g.words(2) + `</a></li>`
			}
			inner += "</ul>"
		}
		return c20SubOpen + "<div" + c20MarkOpen + g.c20Marker() + c20MarkClose + ">" + inner + "</div>\n" + c20SubClose
	}
	words := g.intn(50, 300, "mwords")
	switch tag {
	case "p":
		inner = g.inline(words)
	case "ul":
		for words > 0 {
			k := min(words, g.intn(20, 80, "liw"))
			inner += "<li>" + g.words(k) + "</li>"
			words -= k
		}
	default:
		for words > 0 {
			k := min(words, g.intn(30, 110, "mpw"))
			inner += "<p>" + g.inline(k) + "</p>\n"
			words -= k
		}
		if g.chance(30, "mrw") {
			inner += g.c20Rewritten()
		}
	}
	return c20SubOpen + "<" + tag + c20MarkOpen + g.c20Marker() + c20MarkClose + ">" + inner + "</" + tag + ">\n" + c20SubClose
}

// c20Nested renders one marked subtree inside a structure that the distiller copies or judges as a
// whole (DESIGN §6.1: known findings of C20).
func (g *G) c20Nested(kind string) string {
	inner := g.words(g.intn(30, 90, "nwords"))
	switch kind {
	case "in-data-table-cell":
		// class and id markers are exempt below a <table> by an explicit rule, so the marker is a role
		m := c20SubOpen + "<div" + c20MarkOpen + ` role="` + g.pick("nrole", "navigation", "complementary", "menu", "dialog") + `"` + c20MarkClose + ">" + inner + "</div>" + c20SubClose
		return "<table><caption>" + g.words(3) + "</caption><tr><th>" + g.words(1) + "</th><th>" + g.words(1) + "</th></tr><tr><td>" + g.words(5) + " " + m + "</td><td>" + g.words(4) +
			"</td></tr><tr><td>" + g.words(2) + "</td><td>" + g.words(2) + "</td></tr></table>\n"
	case "in-figcaption":
		m := c20SubOpen + "<span" + c20MarkOpen + g.c20Marker() + c20MarkClose + ">" + inner + "</span>" + c20SubClose
		return `<figure><img src="` + g.url("img") + `" width="800" height="600"><figcaption>` + g.words(5) + " " + m + "</figcaption></figure>\n"
	case "in-lone-wrapper":
		m := c20SubOpen + "<span" + c20MarkOpen + g.c20Marker() + c20MarkClose + ">" + inner + "</span>" + c20SubClose
		return "<div>" + g.words(g.intn(20, 40, "nw1")) + " <div>" + m + "</div> " + g.words(g.intn(20, 40, "nw2")) + "</div>\n"
	default: // in-byline-parent
		m := c20SubOpen + "<span" + c20MarkOpen + g.c20Marker() + c20MarkClose + ">" + inner + "</span>" + c20SubClose
		return `<div class="author">` + g.words(2) + " " + m + "</div>\n"
	}
}

func genC20(t *rapid.T) *Case {
	p := articleProfile()
	p.Inline = []wc{{"text", 70}, {"b", 5}, {"em", 5}, {"a", 6}, {"font", 4}, {"ajs1", 4}, {"span", 4}, {"br", 2}}
	g := newG(t, p)
	var total int
	wclass := g.weighted("wclass", []wc{{"below", 35}, {"boundary", 30}, {"above", 35}})
	switch wclass {
	case "below":
		total = g.intn(200, 480, "w")
	case "boundary":
		total = g.intn(494, 510, "w")
	default:
		total = g.intn(520, 900, "w")
	}
	// a minified page (no white space between the elements) comes with many short paragraphs
	minified := g.chance(map[string]int{"boundary": 50}[wclass]+15, "minified")
	var blocks []string
	left := total
	for left > 0 {
		k := min(left, g.intn(40, 110, "pw"))
		if minified {
			k = min(left, g.intn(17, 30, "pwmin"))
		}
		if left-k < 17 && left-k > 0 { // no short tail paragraph: it could be classified differently
			k = left
		}
		blocks = append(blocks, "<p>"+g.inline(k)+"</p>\n")
		left -= k
	}
	if g.chance(40, "rw") {
		blocks = append(blocks, g.c20Rewritten())
	}
	// a data table (an atomic element that the walk does not descend into) somewhere in the article
	if g.chance(35, "dtable") {
		pos := g.intn(0, len(blocks), "tpos")
		blocks = append(blocks[:pos], append([]string{g.dataTable()}, blocks[pos:]...)...)
	}
	nested := ""
	if g.chance(15, "nested") {
		nested = g.pick("nestedkind", "in-data-table-cell", "in-figcaption", "in-lone-wrapper", "in-byline-parent")
		pos := g.intn(1, max(1, len(blocks)-1), "npos")
		blocks = append(blocks[:pos], append([]string{g.c20Nested(nested)}, blocks[pos:]...)...)
	}
	nm := g.intn(1, 3, "nmarked")
	if nested != "" {
		nm = g.intn(0, 1, "nmarkedn")
	}
	for i := 0; i < nm; i++ {
		pos := g.intn(0, len(blocks), "mpos")
		marked := g.c20Marked()
		blocks = append(blocks[:pos], append([]string{marked}, blocks[pos:]...)...)
		// elements that are exempt from pruning (anchors, table descendants) carrying the very same
		// marker, before or after the marked block
		if g.chance(35, "exempt") {
			attr := rxC20Attr.FindStringSubmatch(marked)[1]
			var ex string
			if g.chance(50, "exemptkind") && !strings.Contains(attr, "role=") {
				ex = "<p>" + g.words(g.intn(20, 40, "exw")) + " <a" + c20MarkOpen + attr + c20MarkClose + ` href="/x/` + g.tokp("l") + `">` + g.words(g.intn(2, 5, "exaw")) + "</a> " + g.words(g.intn(20, 40, "exw2")) + "</p>\n"
			} else if !strings.Contains(attr, "role=") {
				ex = "<table><tr><td" + c20MarkOpen + attr + c20MarkClose + ">" + g.words(g.intn(30, 60, "extw")) + "</td></tr></table>\n"
			}
			if ex != "" {
				epos := g.intn(0, len(blocks), "expos")
				blocks = append(blocks[:epos], append([]string{ex}, blocks[epos:]...)...)
			}
		}
	}
	rescued := 0
	if g.chance(30, "rescued") {
		rescued = g.intn(1, 2, "nrescued")
		for i := 0; i < rescued; i++ {
			pos := g.intn(0, len(blocks), "rpos")
			blocks = append(blocks[:pos], append([]string{g.c20Rescued()}, blocks[pos:]...)...)
		}
	}
	var b strings.Builder
	titleText := func() string { g.push("ha"); defer g.pop(); return g.words(g.intn(3, 7, "titlew")) }()
	b.WriteString("<!DOCTYPE html><html><head><title>" + titleText + "</title></head><body>\n")
	if g.chance(30, "titleheading") {
		// the headline repeats the title (its words belong to the page's content all the same)
		blocks = append([]string{"<h1>" + titleText + "</h1>\n"}, blocks...)
	}
	wrap := g.pick("wrap", "", "div", "article", "main")
	if g.chance(40, "chrome-before") {
		b.WriteString(g.chrome())
	}
	if wrap != "" {
		wattr := ""
		if wrap == "div" && g.chance(30, "wraprescued") {
			// the wrapper of the whole article is such an element (id="ArticleBody" class="has-sidebar")
			wattr = c20ResOpen + g.c20RescuedAttr() + c20ResClose
			rescued++
		}
		b.WriteString("<" + wrap + wattr + ">\n")
	}
	if minified {
		// a minified page: no white space between the elements
		for i := range blocks {
			blocks[i] = strings.ReplaceAll(blocks[i], ">\n", ">")
		}
	}
	b.WriteString(strings.Join(blocks, ""))
	if wrap != "" {
		b.WriteString("</" + wrap + ">\n")
	}
	if g.chance(40, "chrome-after") {
		b.WriteString(g.chrome())
	}
	b.WriteString("</body></html>")
	d, del, ren := c20Variants(b.String())
	c := &Case{Property: "C20", HTML: d, Opts: OptSpec{}}
	if g.chance(30, "url") {
		c.Opts.URL = "http://example.com/a/story.html"
		c.Opts.Skip = true
	}
	c.SetExtra(c20Extra{Del: del, Ren: ren, Nested: nested, Rescued: rescued})
	return c
}

var rxRoleAttr = regexp.MustCompile(` role="[^"]*"`)

func c20View(out callOutcome) string {
	r := out.Res
	return fmt.Sprintf("WordCount=%d\nContentImages=%v\nText=%s\nHTML=%s", r.WordCount, r.ContentImages, r.Text, rxRoleAttr.ReplaceAllString(render(r.Node), ` role=""`))
}

func firstDiff(a, b string) string {
	i := 0
	for i < len(a) && i < len(b) && a[i] == b[i] {
		i++
	}
	lo := max(0, i-80)
	return fmt.Sprintf("first difference at byte %d:\n  …%s\n  …%s", i, truncate(a[lo:], 240), truncate(b[lo:], 240))
}

func checkC20(c *Case) (*Violation, caseInfo) {
	var info caseInfo
	var ex c20Extra
	c.GetExtra(&ex)
	if ex.Del == "" || ex.Ren == "" {
		info.Skip = "no-variants"
		return nil, info
	}
	_, rd := applyHTML(c.HTML, c.Opts)
	_, rdel := applyHTML(ex.Del, c.Opts)
	_, rren := applyHTML(ex.Ren, c.Opts)
	for _, o := range []callOutcome{rd, rdel, rren} {
		if o.Panicked || o.Err != nil || o.Res == nil {
			info.Skip = "apply-failed"
			return nil, info
		}
	}
	wcDel := rdel.Res.WordCount
	branch := "fallback"
	want := c20View(rren)
	if wcDel >= 500 {
		branch = "pruned"
		want = c20View(rdel)
	}
	got := c20View(rd)
	var viol *Violation
	if got != want {
		field := "HTML"
		switch {
		case strings.SplitN(got, "\n", 2)[0] != strings.SplitN(want, "\n", 2)[0]:
			field = "WordCount"
		case rd.Res.Text != map[string]callOutcome{"pruned": rdel, "fallback": rren}[branch].Res.Text:
			field = "Text"
		}
		sig := "C20 differs-from-" + branch + " field=" + field
		if ex.Nested != "" {
			// the marked subtree stands inside a structure that is copied or judged as a whole
			// (either branch: the extra words can also move the page across the 500-word threshold)
			sig = "C20 marked-subtree-inside-whole-structure placement=" + ex.Nested
		}
		viol = violationf(sig,
			"the remaining page yields %d words, so the result must equal that of the page with %s, but it differs (WordCount %d vs %d):\n%s",
			wcDel, map[string]string{"pruned": "the marked subtrees deleted", "fallback": "the markers renamed"}[branch],
			rd.Res.WordCount, map[string]callOutcome{"pruned": rdel, "fallback": rren}[branch].Res.WordCount, firstDiff(got, want))
	}
	// pruning observable: the marked subtrees' tokens are present in R(D_ren) but absent from R(D_del)
	renToks := tokenSet(textTokens(rren.Res.Text))
	delToks := tokenSet(textTokens(rdel.Res.Text))
	observable := false
	for tk := range renToks {
		if !delToks[tk] {
			observable = true
			break
		}
	}
	info.Classes = append(info.Classes, "branch:"+branch)
	if wcDel >= 490 && wcDel <= 510 {
		info.Classes = append(info.Classes, "boundary:490-510")
	}
	if wcDel == 499 || wcDel == 500 {
		info.Classes = append(info.Classes, fmt.Sprintf("boundary:exactly-%d", wcDel))
	}
	if ex.Rescued > 0 {
		info.Classes = append(info.Classes, "rescued-element")
	}
	if observable {
		info.Classes = append(info.Classes, "pruning-observable")
	}
	info.NonTrivial = observable
	return viol, info
}

func TestC20(t *testing.T) { runProp(t, genC20, checkC20) }
