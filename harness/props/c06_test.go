package props

import (
	"fmt"
	"strings"
	"testing"

	distiller "github.com/markusmobius/go-domdistiller"
	"golang.org/x/net/html"
	"pgregory.net/rapid"
)

// C06 — with a page URL, every link and media URL in the output is absolute.

func init() { register("C06", checkC06) }

type c06Extra struct {
	Expect map[string]string `json:"expect"` // token -> expected output value
	Form   map[string]string `json:"form"`   // token -> reference form
}

type pageURLParts struct {
	scheme, host string
	dirs         []string
	file, query  string
}

func (p pageURLParts) path() string {
	s := "/"
	for _, d := range p.dirs {
		s += d + "/"
	}
	return s + p.file
}

func (p pageURLParts) dir(up int) string {
	d := p.dirs[:len(p.dirs)-up]
	s := "/"
	for _, x := range d {
		s += x + "/"
	}
	return s
}

func (p pageURLParts) String() string {
	return p.scheme + "://" + p.host + p.path() + p.query
}

func genPageParts(t *rapid.T) pageURLParts {
	var p pageURLParts
	p.scheme = rapid.SampledFrom([]string{"http", "https"}).Draw(t, "scheme")
	p.host = rapid.SampledFrom([]string{"example.com", "www.site.org", "sub.news.test:8080"}).Draw(t, "host")
	n := rapid.IntRange(0, 3).Draw(t, "ndirs")
	for i := 0; i < n; i++ {
		p.dirs = append(p.dirs, rapid.SampledFrom([]string{"a", "blog", "2021", "sec-x", "d_1", "AC%2FDC"}).Draw(t, "dir"))
	}
	p.file = rapid.SampledFrom([]string{"", "page.html", "story", "index.php"}).Draw(t, "file")
	p.query = rapid.SampledFrom([]string{"", "", "?id=7", "?a=1&b=2"}).Draw(t, "query")
	return p
}

// makeRef builds a reference of the requested form containing token tok, together with the value
// the property demands in the output. The expectation is assembled from the known parts of the page
// URL with string operations only (no net/url), i.e. by construction.
func makeRef(p pageURLParts, form, tok, ext string) (ref, want string) {
	origin := p.scheme + "://" + p.host
	name := tok + ext
	switch form {
	case "path-rel":
		return "m/" + name, origin + p.dir(0) + "m/" + name
	case "plain-rel":
		return name, origin + p.dir(0) + name
	case "dot":
		return "./" + name, origin + p.dir(0) + name
	case "dotdot":
		return "../" + name, origin + p.dir(1) + name
	case "dotdot2":
		return "../../up/" + name, origin + p.dir(2) + "up/" + name
	case "root":
		return "/r/" + name, origin + "/r/" + name
	case "scheme-rel":
		return "//cdn.other.net/c/" + name, p.scheme + "://cdn.other.net/c/" + name
	case "query":
		return "?f=" + name, origin + p.path() + "?f=" + name
	case "root-embedded-url":
		return "/share?u=http://other.example/" + name, origin + "/share?u=http://other.example/" + name
	case "path-embedded-url":
		return "arc/https://other.example/" + name, origin + p.dir(0) + "arc/https://other.example/" + name
	case "comma-path":
		return "m/w_400,h_300/" + name, origin + p.dir(0) + "m/w_400,h_300/" + name
	case "pad-path-rel":
		// white space around a reference is not part of it
		return " m/" + name + " ", origin + p.dir(0) + "m/" + name
	case "pad-root":
		return "\n/r/" + name + "\t", origin + "/r/" + name
	case "pad-query":
		return "  ?f=" + name, origin + p.path() + "?f=" + name
	case "pad-abs":
		v := " " + origin + "/abs/" + name + " "
		return v, v
	case "pad-fragment":
		v := " #frag-" + tok
		return v, v
	case "abs-same":
		v := origin + "/abs/" + name
		return v, v
	case "abs-other":
		v := "https://media.elsewhere.org/x/../y/" + name
		return v, v
	case "fragment":
		v := "#frag-" + tok
		return v, v
	case "data":
		v := "data:image/png;base64," + strings.Repeat("QUJD", 40) + tok
		return v, v
	case "data-text":
		v := "data:text/plain," + tok
		return v, v
	case "javascript":
		v := "javascript:open('" + tok + "')"
		return v, v
	case "mailto":
		v := "mailto:" + tok + "@example.com"
		return v, v
	case "mailto-upper":
		v := "MAILTO:" + tok + "@Example.com"
		return v, v
	case "javascript-mixed":
		v := "JavaScript:open('" + tok + "')#a b"
		return v, v
	case "data-mixed":
		v := "Data:image/png;base64," + strings.Repeat("QUJD", 40) + tok
		return v, v
	case "file-abs":
		v := "file:///C:/My Docs/" + name
		return v, v
	case "file-dots":
		v := "file:///srv/a/../" + name
		return v, v
	case "tel":
		v := "tel:+1-555-" + tok
		return v, v
	case "bad-host":
		v := "http://[::1/" + name
		return v, v
	case "bad-escape":
		v := "%zz/" + name
		return v, v
	case "bad-ctl":
		v := "bad\x7f/" + name
		return v, v
	}
	panic("unknown form " + form)
}

func genC06(t *rapid.T) *Case {
	pp := genPageParts(t)
	ex := c06Extra{Expect: map[string]string{}, Form: map[string]string{}}
	p := articleProfile()
	p.Title = false
	p.LenMix = [3]int{15, 35, 50}
	p.Inline = []wc{{"text", 50}, {"b", 4}, {"em", 3}, {"span", 3}, {"a", 22}, {"ajsn", 2}, {"br", 2}, {"font", 2}}
	media := []wc{{"figure", 8}, {"img", 7}, {"picture", 5}, {"lazy", 3}, {"video", 7}, {"dtable", 7}, {"list", 5}, {"linkwrapped", 5}}
	p.Core = append(append([]wc{}, p.Core...), media...)
	p.Top = append(append([]wc{}, p.Top...), media...)
	p.URL = func(g *G, kind string) string {
		rel := []string{"path-rel", "plain-rel", "dot", "root", "scheme-rel", "query", "root-embedded-url", "path-embedded-url", "comma-path"}
		if len(pp.dirs) >= 1 {
			rel = append(rel, "dotdot")
		}
		if len(pp.dirs) >= 2 {
			rel = append(rel, "dotdot2")
		}
		var forms []string
		padded := []string{"pad-path-rel", "pad-root", "pad-query", "pad-abs"}
		ext := ".png"
		prefix := "i"
		switch kind {
		case "a":
			forms = append(append([]string{}, rel...), "abs-same", "abs-other", "fragment", "data-text", "javascript", "mailto", "bad-host", "bad-escape", "bad-ctl",
				"mailto-upper", "javascript-mixed", "file-abs", "file-dots", "tel", "pad-fragment")
			forms = append(forms, padded...)
			forms = append(forms, rel...) // relative forms twice as likely
			ext, prefix = ".html", "l"
		case "img":
			forms = append(append([]string{}, rel...), "abs-same", "abs-other", "data", "bad-host", "bad-escape", "fragment", "data-mixed", "file-abs")
			forms = append(forms, padded...)
			forms = append(forms, rel...)
		case "srcset":
			forms = append(append([]string{}, rel...), "abs-same", "abs-other")
		case "video", "source-v":
			forms = append(append([]string{}, rel...), "abs-same", "abs-other", "bad-escape", "pad-path-rel", "pad-root")
			ext, prefix = ".mp4", "v"
		case "track":
			forms = append(append([]string{}, rel...), "abs-other")
			ext, prefix = ".vtt", "v"
		case "poster":
			forms = append(append([]string{}, rel...), "abs-same", "data")
		default:
			forms = rel
		}
		form := forms[g.intn(0, len(forms)-1, "form")]
		tok := g.tokp(prefix)
		ref, want := makeRef(pp, form, tok, ext)
		ex.Expect[tok] = want
		ex.Form[tok] = form
		return html.EscapeString(ref)
	}
	g := newG(t, p)
	c := &Case{Property: "C06", HTML: g.page()}
	c.Opts = OptSpec{URL: pp.String(), Algo: uint(rapid.IntRange(0, 1).Draw(t, "algo")), Skip: rapid.Bool().Draw(t, "skip")}
	c.SetExtra(ex)
	return c
}

// srcsetCandidates parses a srcset attribute the way the HTML specification does: a URL is a run of
// non-white-space characters; trailing commas end the candidate; otherwise a descriptor runs up to
// the next comma. (URLs may contain commas in the middle.)
func srcsetCandidates(v string) []string {
	var out []string
	i := 0
	isSpace := func(c byte) bool { return c == ' ' || c == '\t' || c == '\n' || c == '\r' || c == '\f' }
	for i < len(v) {
		for i < len(v) && (isSpace(v[i]) || v[i] == ',') {
			i++
		}
		if i >= len(v) {
			break
		}
		j := i
		for j < len(v) && !isSpace(v[j]) {
			j++
		}
		u := v[i:j]
		if strings.HasSuffix(u, ",") {
			u = strings.TrimRight(u, ",")
			i = j
		} else {
			// descriptor: up to the next comma
			k := j
			for k < len(v) && v[k] != ',' {
				k++
			}
			i = k
		}
		if u != "" {
			out = append(out, u)
		}
	}
	return out
}

func checkC06(c *Case) (*Violation, caseInfo) {
	var info caseInfo
	var ex c06Extra
	c.GetExtra(&ex)
	if c.Opts.URL == "" {
		info.Skip = "no-page-url"
		return nil, info
	}
	// The same Options value (one *url.URL) is used for two consecutive calls, as a caller would
	// reuse it; the expectations always refer to the URL as it was supplied.
	opts := c.Opts.Build()
	var outs []callOutcome
	for call := 0; call < 2; call++ {
		doc, perr := html.Parse(strings.NewReader(c.HTML))
		if perr != nil {
			info.Skip = "parse-failed"
			return nil, info
		}
		o := guarded(0, func() (*distiller.Result, error) { return distiller.Apply(doc, opts) })
		if o.Panicked || o.Err != nil || o.Res == nil {
			info.Skip = "apply-failed"
			return nil, info
		}
		outs = append(outs, o)
	}
	var viol *Violation
	callNo := 0
	forms := map[string]bool{}
	carriers := map[string]bool{}
	relForm := func(f string) bool {
		switch f {
		case "path-rel", "plain-rel", "dot", "dotdot", "dotdot2", "root", "scheme-rel", "query", "root-embedded-url", "path-embedded-url", "comma-path":
			return true
		}
		return false
	}
	checkVal := func(val, carrier string) {
		toks := textTokens(val)
		var tok string
		for _, tk := range toks {
			if _, ok := ex.Expect[tk]; ok {
				tok = tk
				break
			}
		}
		if tok == "" {
			info.Classes = append(info.Classes, "url-without-known-token")
			return
		}
		want := ex.Expect[tok]
		form := ex.Form[tok]
		info.Classes = append(info.Classes, "form:"+form, "carrier:"+carrier)
		if relForm(form) {
			forms[form] = true
			carriers[carrier] = true
		}
		if form == "pad-abs" && val == strings.TrimSpace(want) {
			// an absolute URL with white space around it: unchanged, with or without that white space
			return
		}
		if val != want && viol == nil {
			viol = violationf("C06 wrong-url carrier="+carrier+" form="+form+[]string{"", " second-call"}[callNo],
				"%s value %q (reference form %s) should be %q for page URL %s (call %d with the same Options)", carrier, val, form, want, c.Opts.URL, callNo+1)
		}
	}
	var rec func(n *html.Node, ctx string)
	rec = func(n *html.Node, ctx string) {
		if n.Type == html.ElementNode {
			if isPlaceholder(n) {
				return
			}
			switch n.Data {
			case "table":
				ctx = "table"
			case "figure":
				ctx = "figure"
			case "figcaption":
				ctx = "caption"
			case "video":
				ctx = "video"
			case "picture":
				if ctx == "text" {
					ctx = "picture"
				}
			}
			for _, a := range n.Attr {
				switch a.Key {
				case "href":
					if n.Data == "a" || n.Data == "area" {
						checkVal(a.Val, n.Data+"@"+ctx)
					}
				case "src":
					switch n.Data {
					case "img", "source", "track", "video":
						checkVal(a.Val, n.Data+"@"+ctx)
					}
				case "poster":
					if n.Data == "video" {
						checkVal(a.Val, "poster@"+ctx)
					}
				case "srcset":
					for _, cand := range srcsetCandidates(a.Val) {
						checkVal(cand, "srcset@"+ctx)
					}
				}
			}
		}
		for ch := n.FirstChild; ch != nil; ch = ch.NextSibling {
			rec(ch, ctx)
		}
	}
	for callNo = 0; callNo < 2; callNo++ {
		rec(outs[callNo].Res.Node, "text")
		for _, u := range outs[callNo].Res.ContentImages {
			checkVal(u, "ContentImages")
		}
	}
	info.Classes = dedup(info.Classes)
	info.NonTrivial = len(forms) >= 3 && len(carriers) >= 3 && carriers["a@text"]
	if viol != nil {
		viol.Detail += fmt.Sprintf("\n(page URL %s)", c.Opts.URL)
	}
	return viol, info
}

func TestC06(t *testing.T) { runProp(t, genC06, checkC06) }
