package props

import (
	"regexp"
	"strings"
	"testing"
	"unicode/utf8"

	"golang.org/x/net/html"
	"pgregory.net/rapid"
)

// C15 — title comes from the page, is never invented, and is not repeated in content.

func init() { register("C15", checkC15) }

type c15Extra struct {
	Mode      string `json:"mode"`       // "origin" | "repeat"
	RepeatTag string `json:"repeat_tag"` // tag of the block that repeats the title (repeat mode)
}

var c15Seps = []string{" | ", " - ", " / ", ` \ `, " > ", " » ", ": ", " : ", "-", "|", ":", " – ", " — ", ` |\/| `, ` \/ `}

func (g *G) c15Title(hasTitleElem bool) (string, bool) {
	lenClass := g.weighted("tlen", []wc{{"short", 15}, {"normal", 65}, {"long", 20}})
	nparts := g.intn(1, 4, "tparts")
	script := g.pick("script", "ascii", "ascii", "cyrillic", "greek", "accented")
	var parts []string
	for i := 0; i < nparts; i++ {
		k := g.intn(1, 8, "tpw")
		switch lenClass {
		case "short":
			k = 1
		case "long":
			k = g.intn(8, 14, "tpwl")
		}
		parts = append(parts, g.titleWords(k, script))
	}
	if lenClass == "short" {
		parts = parts[:min(2, len(parts))]
	}
	title := parts[0]
	hasSep := false
	for _, p := range parts[1:] {
		sep := c15Seps[g.intn(0, len(c15Seps)-1, "tsep")]
		if !hasTitleElem && strings.Contains(sep, `\/`) {
			// without <title> the text comes from the rendered text of the first h1, where the
			// library's own line-break marker |\/| cannot be told from page text (DESIGN §6.2)
			sep = " | "
		}
		title += sep + p
		hasSep = true
	}
	if g.intn(0, 5, "endpunct") == 0 {
		title += g.pick("endp", "?", "!", ".", "...", "?!", " ?", " !", " ;")
	}
	return title, hasSep
}

// words2: words without punctuation
func (g *G) words2(k int) string {
	ws := make([]string, k)
	for i := range ws {
		ws[i] = g.tok()
	}
	return strings.Join(ws, " ")
}

// titleWords: like words2, but a word may carry a multi-byte prefix (Cyrillic, Greek, accented
// Latin: character count and byte count then differ) or an apostrophe.
func (g *G) titleWords(k int, script string) string {
	ws := make([]string, k)
	for i := range ws {
		w := g.tok()
		switch script {
		case "cyrillic":
			w = "слово" + w
		case "greek":
			w = "λέξη" + w
		case "accented":
			w = "éàü" + w
		}
		if g.intn(0, 11, "apos") == 0 {
			w += g.pick("aposform", "'s", "n't", "'")
		}
		if g.intn(0, 24, "entitytext") == 0 {
			// text that reads like a character reference (the source escapes its ampersand)
			w = w + g.pick("entitytextv", "&lt;br&gt;", "&amp;", "&nbsp;x", "&#38;")
		}
		if g.intn(0, 19, "innersep") == 0 {
			// separator characters inside a word separate nothing ("18:30", "e-mail", "and/or")
			w = w + g.pick("innersepc", ":", "-", "/", "|") + g.tok()
		}
		if i > 0 && g.intn(0, 14, "dotword") == 0 {
			// a word that starts with punctuation (".NET", ",v")
			w = g.pick("dotform", ".", ",", "!") + w
		}
		ws[i] = w
	}
	return strings.Join(ws, " ")
}

// a separator pattern is one of | - \ / > » with white space on both sides, or a colon followed by
// white space; the same characters inside a word ("e-mail", "18:30", "and/or") separate nothing
var rxC15SeparatorPattern = regexp.MustCompile(` [|\-\\/>»] |: `)

const c15Marker = "\x05REPEAT\x06"

func genC15(t *rapid.T) *Case {
	p := articleProfile()
	g := newG(t, p)
	mode := g.pick("mode", "origin", "origin", "repeat")
	hasTitleElem := mode == "repeat" || !g.chance(8, "notitle")
	g.push("ti")
	title, _ := g.c15Title(hasTitleElem)
	g.pop()
	var head, body strings.Builder
	if hasTitleElem && mode == "origin" && g.intn(0, 11, "titleinbody") == 0 {
		// something in the head that is no head content ends the head early: the parser puts the
		// <title> that follows into the body
		head.WriteString(`<img src="/pixel.gif" width="1" height="1">`)
	}
	if hasTitleElem {
		head.WriteString("<title>" + g.pick("tpad", "", " ", "\n  ") + html.EscapeString(title) + g.pick("tpad2", "", " ", "\n") + "</title>")
	}
	markup := g.weighted("markup", []wc{{"none", 55}, {"og", 12}, {"og-partial", 8}, {"schema", 10}, {"ie", 10}, {"og-optout", 5}})
	if mode == "repeat" {
		markup = g.weighted("markup2", []wc{{"none", 80}, {"og-partial", 20}})
	}
	g.push("mk")
	switch markup {
	case "og":
		head.WriteString(`<meta property="og:title" content="` + g.words2(g.intn(1, 6, "ogw")) + `"><meta property="og:type" content="article"><meta property="og:url" content="http://example.com/x"><meta property="og:image" content="http://example.com/i.png">`)
	case "og-optout":
		// a page that opts out of markup extraction: MarkupInfo is empty, so there is no markup title
		head.WriteString(`<meta name="IE_RM_OFF" content="true"><meta property="og:title" content="` + g.words2(g.intn(1, 6, "ogw")) + `"><meta property="og:type" content="article"><meta property="og:url" content="http://example.com/x"><meta property="og:image" content="http://example.com/i.png">`)
	case "og-partial":
		head.WriteString(`<meta property="og:title" content="` + g.words2(3) + `"><meta property="og:type" content="article">`)
	case "ie":
		head.WriteString(`<meta name="title" content="` + g.words2(g.intn(1, 6, "iew")) + `">`)
	}
	g.pop()
	// headings
	g.push("hd")
	h1Kind := g.weighted("h1", []wc{{"none", 40}, {"unrelated", 25}, {"title", 15}, {"part", 20}})
	if mode == "repeat" {
		h1Kind = g.weighted("h1r", []wc{{"none", 70}, {"unrelated", 30}})
	}
	h1 := ""
	switch h1Kind {
	case "unrelated":
		h1 = g.words2(g.intn(1, 9, "h1w"))
	case "title":
		h1 = title
	case "part":
		fs := strings.Fields(title)
		a := g.intn(0, len(fs)-1, "pa")
		b := g.intn(a, len(fs)-1, "pb")
		h1 = strings.Join(fs[a:b+1], " ")
	}
	// in a heading (rendered text) the library's line-break marker cannot be told from page text
	h1 = strings.ReplaceAll(h1, `|\/|`, "|")
	g.pop()
	shortBody := mode == "repeat" && h1 == "" && g.chance(25, "shortbody")
	if shortBody {
		// a page whose headline is its largest block: the repeated title, then one short paragraph
		ex := c15Extra{Mode: mode, RepeatTag: g.pick("rtag", "h1", "h2", "div")}
		body.WriteString(c15Marker)
		body.WriteString("<p>" + g.words(g.intn(8, 18, "shortw")) + ".</p>\n")
		c := &Case{Property: "C15", HTML: "<!DOCTYPE html><html><head>" + head.String() + "</head><body>\n" + body.String() + "</body></html>", Opts: genOpts(t, 30)}
		c.SetExtra(ex)
		return c
	}
	body.WriteString(g.longPara(40, 90))
	if h1 != "" {
		tag := g.pick("htag", "h1", "h1", "h2")
		body.WriteString("<" + tag + ">" + html.EscapeString(h1) + "</" + tag + ">\n")
	}
	body.WriteString(g.longPara(40, 90))
	if markup == "schema" {
		g.push("mk")
		prop := g.pick("sprop", "headline", "name")
		body.WriteString(`<div itemscope itemtype="http://schema.org/Article"><span itemprop="` + prop + `">` + g.words2(g.intn(1, 6, "scw")) + `</span></div>` + "\n")
		g.pop()
	}
	ex := c15Extra{Mode: mode}
	if mode == "repeat" {
		ex.RepeatTag = g.pick("rtag", "h1", "h2", "h3", "p", "div")
		body.WriteString(c15Marker)
	}
	body.WriteString(g.longPara(40, 90))
	body.WriteString(g.longPara(20, 60))
	c := &Case{Property: "C15", HTML: "<!DOCTYPE html><html><head>" + head.String() + "</head><body>\n" + body.String() + "</body></html>", Opts: genOpts(t, 30)}
	c.SetExtra(ex)
	return c
}

func stripWS(s string) string { return strings.Join(strings.Fields(s), "") }

func innerTextOf(n *html.Node) string {
	var b strings.Builder
	var rec func(*html.Node)
	rec = func(x *html.Node) {
		if x.Type == html.TextNode {
			b.WriteString(x.Data + " ")
		}
		for c := x.FirstChild; c != nil; c = c.NextSibling {
			rec(c)
		}
	}
	rec(n)
	return b.String()
}

func checkC15(c *Case) (*Violation, caseInfo) {
	var info caseInfo
	var ex c15Extra
	c.GetExtra(&ex)
	base := strings.Replace(c.HTML, c15Marker, "", 1)
	doc, out := applyHTML(base, c.Opts)
	if out.Panicked || out.Err != nil || out.Res == nil {
		info.Skip = "apply-failed"
		return nil, info
	}
	res := out.Res
	titleText, h1Text := "", ""
	hasTitle, hasH1 := false, false
	if ts := findAll(doc, func(n *html.Node) bool { return isElem(n, "title") }); len(ts) > 0 {
		titleText, hasTitle = innerTextOf(ts[0]), true
	}
	if hs := findAll(doc, func(n *html.Node) bool { return isElem(n, "h1") }); len(hs) > 0 {
		h1Text, hasH1 = innerTextOf(hs[0]), true
	}
	var viol *Violation
	normTitle := strings.Join(strings.Fields(titleText), " ")
	switch {
	case res.MarkupInfo.Title != "":
		info.Classes = append(info.Classes, "title-from:markup")
		if res.Title != res.MarkupInfo.Title {
			viol = violationf("C15 markup-title-ignored", "MarkupInfo.Title=%q but Title=%q", res.MarkupInfo.Title, res.Title)
		}
	default:
		t := stripWS(res.Title)
		switch {
		case t == "":
			info.Classes = append(info.Classes, "title-from:nothing")
			if (hasTitle && stripWS(titleText) != "") && viol == nil {
				viol = violationf("C15 title-empty-despite-title-element", "Title is empty although <title> is %q", normTitle)
			}
		case hasTitle && t == stripWS(titleText):
			info.Classes = append(info.Classes, "title-from:whole-<title>")
		case hasTitle && strings.HasPrefix(stripWS(titleText), t):
			info.Classes = append(info.Classes, "title-from:prefix-of-<title>")
		case hasTitle && strings.HasSuffix(stripWS(titleText), t):
			info.Classes = append(info.Classes, "title-from:suffix-of-<title>")
		case hasTitle && strings.Contains(stripWS(titleText), t):
			info.Classes = append(info.Classes, "title-from:middle-of-<title>")
		case hasH1 && t == stripWS(h1Text):
			info.Classes = append(info.Classes, "title-from:h1")
		default:
			viol = violationf("C15 title-invented", "Title=%q is neither a contiguous part of <title> %q nor the first h1 %q", res.Title, normTitle, strings.Join(strings.Fields(h1Text), " "))
		}
		// exactness clause
		n := utf8.RuneCountInString(normTitle)
		if hasTitle && n >= 15 && n <= 150 && !rxC15SeparatorPattern.MatchString(normTitle) {
			info.Classes = append(info.Classes, "exactness-domain")
			if res.Title != normTitle && viol == nil {
				viol = violationf("C15 title-not-exact", "<title> %q has %d characters and no separator, but Title=%q", normTitle, n, res.Title)
			}
		}
	}
	if strings.ContainsAny(normTitle, `|-\/>»:`) {
		info.NonTrivial = true
	}

	// repetition clause (control / treatment)
	if ex.Mode == "repeat" && viol == nil && res.Title != "" && strings.Contains(c.HTML, c15Marker) {
		tag := ex.RepeatTag
		if tag == "" {
			tag = "h2"
		}
		words := strings.Fields(res.Title)
		ctlWords := append([]string{}, words...)
		ctlWords[len(ctlWords)-1] = "zq9control"
		mk := func(text string) string {
			inner := html.EscapeString(text)
			if len(c.HTML)%3 == 0 && len(text) > 1 && text[0] < 0x80 && text[0] != '&' && text[0] != '<' {
				// every third page: the first letter of the block is wrapped in inline markup (a drop cap)
				inner = "<span>" + html.EscapeString(text[:1]) + "</span>" + html.EscapeString(text[1:])
			}
			if j := strings.LastIndex(inner, " "); len(c.HTML)%5 == 2 && j > 0 {
				// every fifth page: the last two words of the block are kept together by a no-break
				// space (widow control); what is displayed is the title all the same
				inner = inner[:j] + "&nbsp;" + inner[j+1:]
			}
			kicker := ""
			if len(c.HTML)%4 == 1 {
				// every fourth page: another (short) heading stands directly before the block
				kicker = "<h3>Opinion zq9kicker</h3>\n"
			}
			return strings.Replace(c.HTML, c15Marker, kicker+"<"+tag+">"+inner+"</"+tag+">\n", 1)
		}
		_, outP := applyHTML(mk(res.Title), c.Opts)
		_, outC := applyHTML(mk(strings.Join(ctlWords, " ")), c.Opts)
		if outP.Res != nil && outC.Res != nil && !outP.Panicked && !outC.Panicked && outP.Res.Title == res.Title && outC.Res.Title == res.Title {
			ctlEmitted := strings.Contains(outC.Res.Text, "zq9control")
			info.Classes = append(info.Classes, "repeat:"+tag)
			if ctlEmitted {
				info.Classes = append(info.Classes, "repeat:control-emitted")
				info.NonTrivial = true
				// every word of the title is a unique token of the page, so its presence in Text means
				// the repeated block was emitted
				for _, w := range textTokens(res.Title) {
					if tokenSet(textTokens(outP.Res.Text))[w] {
						viol = violationf("C15 title-repeated-in-content tag="+tag,
							"a <%s> block whose text is exactly the title %q is emitted in the distilled text (a control block differing in one word is emitted too, so only title matching could have removed it)", tag, res.Title)
						break
					}
				}
			}
		} else {
			info.Classes = append(info.Classes, "repeat:title-changed-by-insertion")
		}
	}
	info.Classes = dedup(info.Classes)
	return viol, info
}

func TestC15(t *testing.T) { runProp(t, genC15, checkC15) }
