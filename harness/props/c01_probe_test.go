package props

import (
	"bytes"
	"fmt"
	nurl "net/url"
	"os"
	"os/exec"
	"strings"
	"testing"
	"time"

	distiller "github.com/markusmobius/go-domdistiller"
)

// Probes for recorded C01 findings that would wedge or kill the test process: each runs in a child
// process under a deadline. The generators cannot produce these inputs (a parser loop in the pinned
// golang.org/x/net, inputs of tens of megabytes), so they are excluded from the search by construction
// and checked here one by one; a probe that fails yields a violation whose signature is listed in
// known-findings.json.

type c01Probe struct {
	name      string
	signature string
	timeout   time.Duration
	thorough  bool // only exercised in the thorough tier
	run       func() (*distiller.Result, error)
}

func c01Probes() []c01Probe {
	u, _ := nurl.Parse("http://example.com/p/1")
	return []c01Probe{
		{name: "xnet-parser-loop", signature: "C01 hang probe=xnet-parser-loop", timeout: 8 * time.Second,
			run: func() (*distiller.Result, error) {
				return distiller.ApplyForReader(strings.NewReader("<table><tbody><svg><tr><desc><select></select></tbody>"), nil)
			}},
		{name: "deep-nesting-5.5M", signature: "C01 process-fatal probe=deep-nesting-5.5M", timeout: 120 * time.Second, thorough: true,
			run: func() (*distiller.Result, error) {
				return distiller.ApplyForReader(strings.NewReader(strings.Repeat("<x>", 5_500_000)), nil)
			}},
		{name: "pagenumber-4.2M-siblings", signature: "C01 process-fatal probe=pagenumber-4.2M-siblings", timeout: 120 * time.Second, thorough: true,
			run: func() (*distiller.Result, error) {
				return distiller.ApplyForReader(strings.NewReader(`<a href="/p/2">2</a>`+strings.Repeat("<br>", 4_200_000)),
					&distiller.Options{OriginalURL: u, PaginationAlgo: distiller.PageNumber})
			}},
	}
}

// probeChildMode runs one probe in this (fresh) process.
func probeChildMode() bool {
	name := os.Getenv("VERIF_CHILD_PROBE")
	if name == "" {
		return false
	}
	if f, err := os.OpenFile(os.DevNull, os.O_WRONLY, 0); err == nil {
		os.Stderr = f
	}
	for _, p := range c01Probes() {
		if p.name == name {
			res, err := p.run()
			if err != nil || (res != nil && res.Node != nil && res.Node.Data == "div") {
				fmt.Println("PROBE-RETURNED-NORMALLY")
			} else {
				fmt.Println("PROBE-MALFORMED-RESULT")
			}
			return true
		}
	}
	fmt.Println("PROBE-UNKNOWN")
	return true
}

func checkC01Probe(c *Case) (*Violation, caseInfo) {
	var info caseInfo
	name := strings.TrimPrefix(c.Kind, "probe:")
	var probe *c01Probe
	for _, p := range c01Probes() {
		if p.name == name {
			pp := p
			probe = &pp
		}
	}
	if probe == nil {
		info.Skip = "unknown-probe"
		return nil, info
	}
	cmd := exec.Command(os.Args[0], "-test.run", "^$")
	cmd.Env = append(os.Environ(), "VERIF_CHILD_PROBE="+name, "VERIF_STATS=", "GORACE=")
	var out bytes.Buffer
	cmd.Stdout, cmd.Stderr = &out, &out
	if err := cmd.Start(); err != nil {
		info.Skip = "cannot-start-child"
		return nil, info
	}
	done := make(chan error, 1)
	go func() { done <- cmd.Wait() }()
	info.Classes = append(info.Classes, "probe:"+name)
	info.NonTrivial = true
	select {
	case err := <-done:
		s := out.String()
		switch {
		case strings.Contains(s, "PROBE-RETURNED-NORMALLY"):
			return nil, info
		case strings.Contains(s, "stack overflow") || strings.Contains(s, "fatal error") || err != nil:
			return violationf("C01 process-fatal probe="+name, "the call killed its process: %s", truncate(s, 400)), info
		default:
			return violationf("C01 malformed-result probe="+name, "probe output: %s", truncate(s, 200)), info
		}
	case <-time.After(probe.timeout):
		cmd.Process.Kill()
		<-done
		return violationf("C01 hang probe="+name, "the call did not return within %v (child process killed)", probe.timeout), info
	}
}

// TestC01Known exercises the probes of the recorded findings (quick: the cheap ones).
func TestC01Known(t *testing.T) {
	thorough := os.Getenv("VERIF_TIER") == "thorough"
	for _, p := range c01Probes() {
		if p.thorough && !thorough {
			continue
		}
		c := &Case{Property: "C01", Kind: "probe:" + p.name}
		if v := evalCase(c, checkC01); v != nil {
			t.Fatalf("property C01 violated [%s]: %s", v.Signature, v.Detail)
		}
	}
}
