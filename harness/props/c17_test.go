package props

import (
	"fmt"
	"os"
	"strconv"
	"strings"
	"testing"
)

// C17 — conventional pagers are resolved correctly (enumerated, not sampled).

func init() { register("C17", checkC17) }

type c17Extra struct {
	Next       string `json:"next"` // expected NextPage ("" = must be empty)
	Prev       string `json:"prev"`
	AssertNext bool   `json:"assert_next"`
	AssertPrev bool   `json:"assert_prev"`
	Cell       string `json:"cell"`
}

type urlFamily struct {
	name string
	link func(k int) string
}

var c17Families = []urlFamily{
	{"query-page", func(k int) string { return fmt.Sprintf("http://example.com/forum/thread?page=%d", k) }},
	{"query-id-p", func(k int) string { return fmt.Sprintf("http://example.com/view.php?id=77&p=%d", k) }},
	{"path-num", func(k int) string { return fmt.Sprintf("http://example.com/story/slug/%d", k) }},
	{"path-page-num-slash", func(k int) string { return fmt.Sprintf("http://example.com/blog/page/%d/", k) }},
	{"file-dash-num-html", func(k int) string { return fmt.Sprintf("http://example.com/news/story-%d.html", k) }},
	{"file-underscore-num-htm", func(k int) string { return fmt.Sprintf("http://example.com/news/story_%d.htm", k) }},
	{"https-other-host-pg", func(k int) string { return fmt.Sprintf("https://www.site.org/read?pg=%d", k) }},
	{"path-middle-num", func(k int) string { return fmt.Sprintf("http://example.com/story/%d/the-long-read", k) }},
	{"file-article-num-html", func(k int) string { return fmt.Sprintf("http://example.com/news/article-%d.html", k) }},
	{"path-post-num", func(k int) string { return fmt.Sprintf("http://example.com/post/%d", k) }},
	// zero-padded page numbers
	{"file-zero-padded", func(k int) string { return fmt.Sprintf("http://example.com/gallery/photo-%02d.html", k) }},
	// a file-name suffix below a year/month folder (the number is not a path component of its own)
	{"file-suffix-in-year-month-folder", func(k int) string { return fmt.Sprintf("http://example.com/2014/07/budget-talks-%d.html", k) }},
}

var (
	c17Wrappers = []string{"none", "span", "li", "td"}
	c17Current  = []string{"text", "span", "strong", "b", "em.current", "brackets"}
	c17Seps     = []string{" ", " | ", "", " ", " · ", "\n", "<!-- item -->", " <!-- --> "}
	c17Labels   = []string{"", "Pages: ", "Page "}
	c17HrefForm = []string{"abs", "rootrel"}
	c17Pretty   = []bool{false, true}
	c17PNLabels = [][2]string{{"Next", "Prev"}, {"next", "prev"}, {"Next", "Previous"}, {"next page", "prev page"}, {"Next page", "Previous page"}}
)

func normPagerURL(u string) string {
	// the finders strip one trailing "/" from the path
	if i := strings.IndexAny(u, "?#"); i >= 0 {
		return strings.TrimSuffix(u[:i], "/") + u[i:]
	}
	return strings.TrimSuffix(u, "/")
}

func hrefForm(u, form string) string {
	if form == "rootrel" {
		i := strings.Index(u[8:], "/")
		return u[8+i:]
	}
	return u
}

const c17Body = "<p>alpha beta gamma delta epsilon zeta eta theta iota kappa lambda mu nu xi omicron pi rho sigma tau upsilon phi chi psi omega " +
	"alpha beta gamma delta epsilon zeta eta theta iota kappa lambda mu nu xi omicron pi rho sigma tau upsilon.</p>\n"

// c17Lead: numeric link texts that are no pager (a comment counter, each followed by another anchor),
// above the article body; set per enumeration cell.
var c17Lead = ""

// c17LinkText renders the content of a numbered link: the bare number, or the number preceded by a
// label that is not displayed (the accessible-name idiom: what is rendered is still the number).
var c17LinkForm = "plain"

func c17LinkText(i int) string {
	switch c17LinkForm {
	case "hidden-attr-label":
		return "<span hidden>Go to page </span>" + strconv.Itoa(i)
	case "display-none-label":
		return `<span style="display:none">Go to page </span>` + strconv.Itoa(i)
	}
	return strconv.Itoa(i)
}

// c17Outer is an element around the pager's container (prev/next loop): `<div id="footer">` and the like.
var c17Outer = ""

// c17ContainerAttr is the attribute text of the pager's container (set by the prev/next loop).
var c17ContainerAttr = ` class="pager"`

var c17PrettyContainer = []struct {
	pretty bool
	cattr  string
	outer  string
}{{false, ` class="pager"`, ""}, {true, ` class="pager"`, ""}, {false, ``, ""}, {true, ``, ""}, {false, ` id="nav-links"`, ""}, {true, ` id="nav-links"`, ""},
	// a neutral element around the container. Containers named footer, sidebar, tools … are NOT enumerated:
	// the prev/next scoring lowers the score of links below such names by design (with one such container
	// the path-middle-num family is already not returned on the pinned tree), see DESIGN §6.2.
	{false, ` class="pager"`, ` class="wrap"`}}

func renderPager(fam urlFamily, n, k int, wrapper, current, sep, label, form string, numbered bool, pn *[2]string, pretty bool) string {
	var items []string
	nl := ""
	if pretty {
		nl = "\n      " // pretty-printed markup: white-space text nodes around every item
	}
	wrap := func(s string) string {
		switch wrapper {
		case "span":
			return nl + "<span>" + nl + s + nl + "</span>"
		case "li":
			return nl + "<li>" + nl + s + sep + nl + "</li>"
		case "td":
			return nl + "<td>" + nl + s + sep + nl + "</td>"
		}
		return nl + s
	}
	if pn != nil && k > 1 {
		items = append(items, wrap(`<a href="`+htmlEsc(hrefForm(fam.link(k-1), form))+`">`+pn[1]+`</a>`))
	}
	if numbered {
		for i := 1; i <= n; i++ {
			if i == k {
				var cur string
				switch current {
				case "text":
					cur = strconv.Itoa(i)
				case "span", "strong", "b":
					cur = "<" + current + ">" + strconv.Itoa(i) + "</" + current + ">"
				case "em.current":
					cur = `<em class="current">` + strconv.Itoa(i) + "</em>"
				case "brackets":
					cur = "[" + strconv.Itoa(i) + "]"
				}
				items = append(items, wrap(cur))
			} else {
				items = append(items, wrap(`<a href="`+htmlEsc(hrefForm(fam.link(i), form))+`">`+c17LinkText(i)+`</a>`))
			}
		}
	}
	if pn != nil && k < n {
		items = append(items, wrap(`<a href="`+htmlEsc(hrefForm(fam.link(k+1), form))+`">`+pn[0]+`</a>`))
	}
	var inner string
	switch wrapper {
	case "li":
		inner = "<ul>" + strings.Join(items, "") + "</ul>"
	case "td":
		inner = "<table><tr>" + strings.Join(items, "") + "</tr></table>"
	default:
		inner = strings.Join(items, sep)
	}
	return "<html><head><title>Some story</title></head><body>\n" + c17Body + c17Lead + c17Body +
		map[bool]string{true: "<div" + c17Outer + ">"}[c17Outer != ""] + `<div` + c17ContainerAttr + `>` + label + inner + "</div>" + map[bool]string{true: "</div>"}[c17Outer != ""] + "\n</body></html>"
}

func htmlEsc(s string) string { return strings.ReplaceAll(s, "&", "&amp;") }

func checkC17(c *Case) (*Violation, caseInfo) {
	var info caseInfo
	var ex c17Extra
	c.GetExtra(&ex)
	_, out := applyHTML(c.HTML, c.Opts)
	if out.Panicked || out.Err != nil || out.Res == nil {
		info.Skip = "apply-failed"
		return nil, info
	}
	pi := out.Res.PaginationInfo
	info.NonTrivial = true
	algo := []string{"PrevNext", "PageNumber"}[c.Opts.Algo]
	if ex.AssertNext && pi.NextPage != ex.Next {
		return violationf("C17 wrong-next algo="+algo+" "+ex.Cell, "NextPage=%q, expected %q (PrevPage=%q) for %s on page %s", pi.NextPage, ex.Next, pi.PrevPage, ex.Cell, c.Opts.URL), info
	}
	if ex.AssertPrev && pi.PrevPage != ex.Prev {
		return violationf("C17 wrong-prev algo="+algo+" "+ex.Cell, "PrevPage=%q, expected %q (NextPage=%q) for %s on page %s", pi.PrevPage, ex.Prev, pi.NextPage, ex.Cell, c.Opts.URL), info
	}
	return nil, info
}

func shardSpec() (int, int) {
	i, n := 0, 1
	fmt.Sscanf(os.Getenv("VERIF_SHARD"), "%d/%d", &i, &n)
	if n < 1 {
		n = 1
	}
	return i, n
}

func envSeed() int {
	s, err := strconv.Atoi(os.Getenv("VERIF_SEED"))
	if err != nil {
		return 1
	}
	return s
}

func TestC17(t *testing.T) {
	shard, nshards := shardSpec()
	thorough := os.Getenv("VERIF_TIER") == "thorough"
	seed := envSeed()
	idx := 0
	run := func(c *Case, class string) {
		idx++
		if idx%nshards != shard {
			return
		}
		st.Class(class)
		if v := evalCase(c, checkC17); v != nil {
			t.Fatalf("property C17 violated [%s]: %s", v.Signature, v.Detail)
		}
	}
	markup := 0
	for _, wrapper := range c17Wrappers {
		for _, current := range c17Current {
			for _, sep := range c17Seps {
				for _, label := range c17Labels {
					for _, form := range c17HrefForm {
						for _, pretty := range c17Pretty {
							markup++
							if !thorough && int(mixIndex(markup)%24) != ((seed%24)+24)%24 {
								continue
							}
							for _, fam := range c17Families {
								for n := 2; n <= 12; n++ {
									for k := 1; k <= n; k++ {
										ex := c17Extra{AssertNext: true, AssertPrev: true,
											Cell: fmt.Sprintf("family=%s N=%d k=%d wrapper=%s current=%s sep=%q label=%q href=%s pretty=%v", fam.name, n, k, wrapper, current, sep, label, form, pretty)}
										if k < n {
											ex.Next = normPagerURL(fam.link(k + 1))
										}
										if k > 1 {
											ex.Prev = normPagerURL(fam.link(k - 1))
										}
										c17Lead = ""
										if markup%3 == 0 {
											// a comment counter above and below the headline, each followed by another link
											c17Lead = `<p><a href="/story/comments#c">12</a> <a href="/share">Share</a></p>` + "\n" + c17Body + `<p><a href="/story/comments#c">12</a> <a href="/share">Share</a></p>` + "\n"
										}
										c := &Case{Property: "C17", Kind: "page-number", HTML: renderPager(fam, n, k, wrapper, current, sep, label, form, true, nil, pretty),
											Opts: OptSpec{URL: fam.link(k), Algo: 1}}
										c.SetExtra(ex)
										run(c, "page-number:"+fam.name)
									}
								}
							}
						}
					}
				}
			}
		}
	}
	// numbered links with a label that is not displayed (sub-product: no list label, absolute hrefs)
	for _, linkForm := range []string{"hidden-attr-label", "display-none-label"} {
		for _, wrapper := range c17Wrappers {
			for _, current := range c17Current {
				for _, sep := range c17Seps {
					markup++
					if !thorough && int(mixIndex(markup)%24) != ((seed%24)+24)%24 {
						continue
					}
					for _, fam := range c17Families {
						for n := 2; n <= 12; n++ {
							for k := 1; k <= n; k++ {
								ex := c17Extra{AssertNext: true, AssertPrev: true,
									Cell: fmt.Sprintf("family=%s N=%d k=%d wrapper=%s current=%s sep=%q links=%s", fam.name, n, k, wrapper, current, sep, linkForm)}
								if k < n {
									ex.Next = normPagerURL(fam.link(k + 1))
								}
								if k > 1 {
									ex.Prev = normPagerURL(fam.link(k - 1))
								}
								c17Lead = ""
								c17LinkForm = linkForm
								page := renderPager(fam, n, k, wrapper, current, sep, "", "abs", true, nil, false)
								c17LinkForm = "plain"
								c := &Case{Property: "C17", Kind: "page-number", HTML: page, Opts: OptSpec{URL: fam.link(k), Algo: 1}}
								c.SetExtra(ex)
								run(c, "page-number-hidden-label:"+fam.name)
							}
						}
					}
				}
			}
		}
	}
	// prev/next algorithm
	variant := 0
	for _, fam := range c17Families {
		for n := 2; n <= 12; n++ {
			for k := 1; k <= n; k++ {
				for _, numbered := range []bool{true, false} {
					for li := range c17PNLabels {
						for _, form := range c17HrefForm {
							for _, wrapper := range []string{"none", "span", "li"} {
								for _, pc := range c17PrettyContainer {
									pretty, cattr := pc.pretty, pc.cattr
									variant++
									if !thorough && int(mixIndex(variant)%24) != ((seed%24)+24)%24 {
										continue
									}
									pn := c17PNLabels[li]
									ex := c17Extra{AssertNext: k < n, AssertPrev: k > 1,
										Cell: fmt.Sprintf("family=%s N=%d k=%d numbered=%v labels=%v href=%s wrapper=%s pretty=%v container=%q", fam.name, n, k, numbered, pn, form, wrapper, pretty, cattr+pc.outer)}
									if k < n {
										ex.Next = normPagerURL(fam.link(k + 1))
									}
									if k > 1 {
										ex.Prev = normPagerURL(fam.link(k - 1))
									}
									c17Lead = ""
									c17ContainerAttr, c17Outer = cattr, pc.outer
									page := renderPager(fam, n, k, wrapper, "strong", " ", "", form, numbered, &pn, pretty)
									c17ContainerAttr, c17Outer = ` class="pager"`, ""
									c := &Case{Property: "C17", Kind: "prev-next", HTML: page,
										Opts: OptSpec{URL: fam.link(k), Algo: 0}}
									c.SetExtra(ex)
									run(c, "prev-next:"+fam.name)
								}
							}
						}
					}
				}
			}
		}
	}
	st.mu.Lock()
	st.Exhaustive = thorough
	st.mu.Unlock()
	st.Note("enumeration", fmt.Sprintf("shard %d/%d visited its residue class of %d enumerated pagers (tier thorough = full product)", shard, nshards, idx))
}
