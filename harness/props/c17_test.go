package props

import (
	"fmt"
	"os"
	"strconv"
	"strings"
	"testing"
)

// C17 — conventional pagers are resolved correctly (enumerated, not sampled).

func init() { register("C17", checkC17) }

type c17Extra struct {
	Next       string `json:"next"` // expected NextPage ("" = must be empty)
	Prev       string `json:"prev"`
	AssertNext bool   `json:"assert_next"`
	AssertPrev bool   `json:"assert_prev"`
	Cell       string `json:"cell"`
}

type urlFamily struct {
	name string
	link func(k int) string
}

var c17Families = []urlFamily{
	{"query-page", func(k int) string { return fmt.Sprintf("http://example.com/forum/thread?page=%d", k) }},
	{"query-id-p", func(k int) string { return fmt.Sprintf("http://example.com/view.php?id=77&p=%d", k) }},
	{"path-num", func(k int) string { return fmt.Sprintf("http://example.com/story/slug/%d", k) }},
	{"path-page-num-slash", func(k int) string { return fmt.Sprintf("http://example.com/blog/page/%d/", k) }},
	{"file-dash-num-html", func(k int) string { return fmt.Sprintf("http://example.com/news/story-%d.html", k) }},
	{"file-underscore-num-htm", func(k int) string { return fmt.Sprintf("http://example.com/news/story_%d.htm", k) }},
	{"https-other-host-pg", func(k int) string { return fmt.Sprintf("https://www.site.org/read?pg=%d", k) }},
	{"path-middle-num", func(k int) string { return fmt.Sprintf("http://example.com/story/%d/the-long-read", k) }},
	{"file-article-num-html", func(k int) string { return fmt.Sprintf("http://example.com/news/article-%d.html", k) }},
	{"path-post-num", func(k int) string { return fmt.Sprintf("http://example.com/post/%d", k) }},
	// zero-padded page numbers
	{"file-zero-padded", func(k int) string { return fmt.Sprintf("http://example.com/gallery/photo-%02d.html", k) }},
	// a file-name suffix below a year/month folder (the number is not a path component of its own)
	{"file-suffix-in-year-month-folder", func(k int) string { return fmt.Sprintf("http://example.com/2014/07/budget-talks-%d.html", k) }},
}

var (
	c17Wrappers = []string{"none", "span", "li", "td"}
	c17Current  = []string{"text", "span", "strong", "b", "em.current", "brackets"}
	c17Seps     = []string{" ", " | ", "", " ", " · ", "\n", "<!-- item -->", " <!-- --> "}
	c17Labels   = []string{"", "Pages: ", "Page "}
	c17HrefForm = []string{"abs", "rootrel"}
	c17Pretty   = []bool{false, true}
	c17PNLabels = [][2]string{{"Next", "Prev"}, {"next", "prev"}, {"Next", "Previous"}, {"next page", "prev page"}, {"Next page", "Previous page"}}
)

func normPagerURL(u string) string {
	// the finders strip one trailing "/" from the path
	if i := strings.IndexAny(u, "?#"); i >= 0 {
		return strings.TrimSuffix(u[:i], "/") + u[i:]
	}
	return strings.TrimSuffix(u, "/")
}

func hrefForm(u, form string) string {
	if form == "rootrel" {
		i := strings.Index(u[8:], "/")
		return u[8+i:]
	}
	return u
}

const c17Body = "<p>alpha beta gamma delta epsilon zeta eta theta iota kappa lambda mu nu xi omicron pi rho sigma tau upsilon phi chi psi omega " +
	"alpha beta gamma delta epsilon zeta eta theta iota kappa lambda mu nu xi omicron pi rho sigma tau upsilon.</p>\n"

// c17Lead: numeric link texts that are no pager (a comment counter, each followed by another anchor),
// above the article body; set per enumeration cell.
var c17Lead = ""

// c17ContainerAttr is the attribute text of the pager's container (set by the prev/next loop).
var c17ContainerAttr = ` class="pager"`

var c17PrettyContainer = []struct {
	pretty bool
	cattr  string
}{{false, ` class="pager"`}, {true, ` class="pager"`}, {false, ``}, {true, ``}, {false, ` id="nav-links"`}, {true, ` id="nav-links"`}}

func renderPager(fam urlFamily, n, k int, wrapper, current, sep, label, form string, numbered bool, pn *[2]string, pretty bool) string {
	var items []string
	nl := ""
	if pretty {
		nl = "\n      " // pretty-printed markup: white-space text nodes around every item
	}
	wrap := func(s string) string {
		switch wrapper {
		case "span":
			return nl + "<span>" + nl + s + nl + "</span>"
		case "li":
			return nl + "<li>" + nl + s + sep + nl + "</li>"
		case "td":
			return nl + "<td>" + nl + s + sep + nl + "</td>"
		}
		return nl + s
	}
	if pn != nil && k > 1 {
		items = append(items, wrap(`<a href="`+htmlEsc(hrefForm(fam.link(k-1), form))+`">`+pn[1]+`</a>`))
	}
	if numbered {
		for i := 1; i <= n; i++ {
			if i == k {
				var cur string
				switch current {
				case "text":
					cur = strconv.Itoa(i)
				case "span", "strong", "b":
					cur = "<" + current + ">" + strconv.Itoa(i) + "</" + current + ">"
				case "em.current":
					cur = `<em class="current">` + strconv.Itoa(i) + "</em>"
				case "brackets":
					cur = "[" + strconv.Itoa(i) + "]"
				}
				items = append(items, wrap(cur))
			} else {
				items = append(items, wrap(`<a href="`+htmlEsc(hrefForm(fam.link(i), form))+`">`+strconv.Itoa(i)+`</a>`))
			}
		}
	}
	if pn != nil && k < n {
		items = append(items, wrap(`<a href="`+htmlEsc(hrefForm(fam.link(k+1), form))+`">`+pn[0]+`</a>`))
	}
	var inner string
	switch wrapper {
	case "li":
		inner = "<ul>" + strings.Join(items, "") + "</ul>"
	case "td":
		inner = "<table><tr>" + strings.Join(items, "") + "</tr></table>"
	default:
		inner = strings.Join(items, sep)
	}
	return "<html><head><title>Some story</title></head><body>\n" + c17Body + c17Lead + c17Body +
		`<div` + c17ContainerAttr + `>` + label + inner + "</div>\n</body></html>"
}

func htmlEsc(s string) string { return strings.ReplaceAll(s, "&", "&amp;") }

func checkC17(c *Case) (*Violation, caseInfo) {
	var info caseInfo
	var ex c17Extra
	c.GetExtra(&ex)
	_, out := applyHTML(c.HTML, c.Opts)
	if out.Panicked || out.Err != nil || out.Res == nil {
		info.Skip = "apply-failed"
		return nil, info
	}
	pi := out.Res.PaginationInfo
	info.NonTrivial = true
	algo := []string{"PrevNext", "PageNumber"}[c.Opts.Algo]
	if ex.AssertNext && pi.NextPage != ex.Next {
		return violationf("C17 wrong-next algo="+algo+" "+ex.Cell, "NextPage=%q, expected %q (PrevPage=%q) for %s on page %s", pi.NextPage, ex.Next, pi.PrevPage, ex.Cell, c.Opts.URL), info
	}
	if ex.AssertPrev && pi.PrevPage != ex.Prev {
		return violationf("C17 wrong-prev algo="+algo+" "+ex.Cell, "PrevPage=%q, expected %q (NextPage=%q) for %s on page %s", pi.PrevPage, ex.Prev, pi.NextPage, ex.Cell, c.Opts.URL), info
	}
	return nil, info
}

func shardSpec() (int, int) {
	i, n := 0, 1
	fmt.Sscanf(os.Getenv("VERIF_SHARD"), "%d/%d", &i, &n)
	if n < 1 {
		n = 1
	}
	return i, n
}

func envSeed() int {
	s, err := strconv.Atoi(os.Getenv("VERIF_SEED"))
	if err != nil {
		return 1
	}
	return s
}

func TestC17(t *testing.T) {
	shard, nshards := shardSpec()
	thorough := os.Getenv("VERIF_TIER") == "thorough"
	seed := envSeed()
	idx := 0
	run := func(c *Case, class string) {
		idx++
		if idx%nshards != shard {
			return
		}
		st.Class(class)
		if v := evalCase(c, checkC17); v != nil {
			t.Fatalf("property C17 violated [%s]: %s", v.Signature, v.Detail)
		}
	}
	markup := 0
	for _, wrapper := range c17Wrappers {
		for _, current := range c17Current {
			for _, sep := range c17Seps {
				for _, label := range c17Labels {
					for _, form := range c17HrefForm {
						for _, pretty := range c17Pretty {
							markup++
							if !thorough && int(mixIndex(markup)%24) != ((seed%24)+24)%24 {
								continue
							}
							for _, fam := range c17Families {
								for n := 2; n <= 12; n++ {
									for k := 1; k <= n; k++ {
										ex := c17Extra{AssertNext: true, AssertPrev: true,
											Cell: fmt.Sprintf("family=%s N=%d k=%d wrapper=%s current=%s sep=%q label=%q href=%s pretty=%v", fam.name, n, k, wrapper, current, sep, label, form, pretty)}
										if k < n {
											ex.Next = normPagerURL(fam.link(k + 1))
										}
										if k > 1 {
											ex.Prev = normPagerURL(fam.link(k - 1))
										}
										c17Lead = ""
										if markup%3 == 0 {
											// a comment counter above and below the headline, each followed by another link
											c17Lead = `<p><a href="/story/comments#c">12</a> <a href="/share">Share</a></p>` + "\n" + c17Body + `<p><a href="/story/comments#c">12</a> <a href="/share">Share</a></p>` + "\n"
										}
										c := &Case{Property: "C17", Kind: "page-number", HTML: renderPager(fam, n, k, wrapper, current, sep, label, form, true, nil, pretty),
											Opts: OptSpec{URL: fam.link(k), Algo: 1}}
										c.SetExtra(ex)
										run(c, "page-number:"+fam.name)
									}
								}
							}
						}
					}
				}
			}
		}
	}
	// prev/next algorithm
	variant := 0
	for _, fam := range c17Families {
		for n := 2; n <= 12; n++ {
			for k := 1; k <= n; k++ {
				for _, numbered := range []bool{true, false} {
					for li := range c17PNLabels {
						for _, form := range c17HrefForm {
							for _, wrapper := range []string{"none", "span", "li"} {
								for _, pc := range c17PrettyContainer {
									pretty, cattr := pc.pretty, pc.cattr
									variant++
									if !thorough && int(mixIndex(variant)%24) != ((seed%24)+24)%24 {
										continue
									}
									pn := c17PNLabels[li]
									ex := c17Extra{AssertNext: k < n, AssertPrev: k > 1,
										Cell: fmt.Sprintf("family=%s N=%d k=%d numbered=%v labels=%v href=%s wrapper=%s pretty=%v container=%q", fam.name, n, k, numbered, pn, form, wrapper, pretty, cattr)}
									if k < n {
										ex.Next = normPagerURL(fam.link(k + 1))
									}
									if k > 1 {
										ex.Prev = normPagerURL(fam.link(k - 1))
									}
									c17Lead = ""
									c17ContainerAttr = cattr
									page := renderPager(fam, n, k, wrapper, "strong", " ", "", form, numbered, &pn, pretty)
									c17ContainerAttr = ` class="pager"`
									c := &Case{Property: "C17", Kind: "prev-next", HTML: page,
										Opts: OptSpec{URL: fam.link(k), Algo: 0}}
									c.SetExtra(ex)
									run(c, "prev-next:"+fam.name)
								}
							}
						}
					}
				}
			}
		}
	}
	st.mu.Lock()
	st.Exhaustive = thorough
	st.mu.Unlock()
	st.Note("enumeration", fmt.Sprintf("shard %d/%d visited its residue class of %d enumerated pagers (tier thorough = full product)", shard, nshards, idx))
}
