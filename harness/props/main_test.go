package props

import (
	"encoding/json"
	"fmt"
	"os"
	"testing"

	"pgregory.net/rapid"
)

// caseInfo is what a check reports about a case besides the verdict.
type caseInfo struct {
	Skip       string   // non-empty: the case is outside the property's domain (counted, not evaluated)
	NonTrivial bool     // by the property's stated rule
	Classes    []string // histogram labels
	Note       string
}

type checkFn func(c *Case) (*Violation, caseInfo)

var registry = map[string]checkFn{}

func register(id string, fn checkFn) { registry[id] = fn }

// childMode: when VERIF_CHILD_CASE names a file, this process is a fresh helper process: it
// distils the listed pages in order and prints the canonical form of the last result.
func childMode() bool {
	p := os.Getenv("VERIF_CHILD_CASE")
	if p == "" {
		return false
	}
	b, err := os.ReadFile(p)
	if err != nil {
		fmt.Println("CHILD-ERROR read")
		return true
	}
	var pages []c11Doc
	if json.Unmarshal(b, &pages) != nil {
		fmt.Println("CHILD-ERROR json")
		return true
	}
	if f, err := os.OpenFile(os.DevNull, os.O_WRONLY, 0); err == nil {
		os.Stderr = f
	}
	last := ""
	for _, pg := range pages {
		_, out := applyHTML(pg.HTML, pg.Opts)
		switch {
		case out.Panicked:
			last = "panic"
		case out.Err != nil:
			last = "error: " + out.Err.Error()
		default:
			last = canonical(out.Res)
		}
	}
	fmt.Print("CHILD-RESULT-BEGIN\n" + last + "\nCHILD-RESULT-END\n")
	return true
}

func TestMain(m *testing.M) {
	if childMode() || probeChildMode() {
		os.Exit(0)
	}
	// logrus.New() captures the os.Stderr *variable* when a logger is built; point it at
	// /dev/null so that log flags do not flood the driver. File descriptor 2 stays usable for
	// the race detector and runtime fatals.
	coordinator := false
	for _, a := range os.Args {
		if len(a) > 11 && a[:11] == "-test.fuzz=" {
			coordinator = true
		}
	}
	for _, a := range os.Args {
		if a == "-test.fuzzworker" || a == "-test.fuzzworker=true" {
			coordinator = false
		}
	}
	// (the fuzz coordinator reports progress on os.Stderr; it must keep the real one)
	if os.Getenv("VERIF_KEEP_STDERR") == "" && !coordinator {
		if f, err := os.OpenFile(os.DevNull, os.O_WRONLY, 0); err == nil {
			os.Stderr = f
		}
	}
	code := m.Run()
	st.write()
	os.Exit(code)
}

// evalCase runs one generated case through its check and does all book-keeping. It returns
// a non-nil violation only when it is not a known finding.
func evalCase(c *Case, check checkFn) *Violation {
	v, info := check(c)
	if info.Skip != "" {
		st.Skip(info.Skip)
		return nil
	}
	st.Eval()
	st.Class(info.Classes...)
	if info.NonTrivial {
		st.Class("nontrivial")
		st.NonTrivial(c.Kind, c.HTML, fmt.Sprint(c.Opts), string(c.Extra))
	}
	st.SampleCase(info.NonTrivial, c, info.Note)
	if v != nil {
		if isKnown(c.Property, v.Signature) {
			st.KnownHit(v.Signature)
			return nil
		}
		saveFailingCase(c, v)
		return v
	}
	return nil
}

// runProp drives a property with rapid.
func runProp(t *testing.T, gen func(*rapid.T) *Case, check checkFn) {
	t.Helper()
	rapid.Check(t, func(rt *rapid.T) {
		c := gen(rt)
		if v := evalCase(c, check); v != nil {
			rt.Fatalf("property %s violated [%s]: %s", c.Property, v.Signature, v.Detail)
		}
	})
}

// TestReplay re-evaluates one saved case (VERIF_REPLAY=<file>) without the library.
func TestReplay(t *testing.T) {
	p := os.Getenv("VERIF_REPLAY")
	if p == "" {
		t.Skip("VERIF_REPLAY not set")
	}
	b, err := os.ReadFile(p)
	if err != nil {
		t.Fatalf("cannot read replay file: %v", err)
	}
	var c Case
	if err := json.Unmarshal(b, &c); err != nil {
		t.Fatalf("bad replay file: %v", err)
	}
	check, ok := registry[c.Property]
	if !ok {
		t.Fatalf("no check registered for %q", c.Property)
	}
	v, info := check(&c)
	if info.Skip != "" {
		t.Logf("case is outside the domain: %s", info.Skip)
		return
	}
	if v != nil {
		if isKnown(c.Property, v.Signature) {
			fmt.Printf("KNOWN-SIGNATURE %s\n", v.Signature)
			return
		}
		fmt.Printf("REPLAY-VIOLATION property=%s signature=%s\n%s\n", c.Property, v.Signature, v.Detail)
		t.Fatalf("violation reproduced")
	}
	fmt.Printf("REPLAY-OK property=%s\n", c.Property)
}

// TestRegress replays every saved case under VERIF_REGRESS_DIR (shrunk failures of defects that
// were repaired, and seeds worth keeping): the seconds-long replay tier.
func TestRegress(t *testing.T) {
	dir := os.Getenv("VERIF_REGRESS_DIR")
	if dir == "" {
		t.Skip("VERIF_REGRESS_DIR not set")
	}
	ents, err := os.ReadDir(dir)
	if err != nil {
		return
	}
	for _, e := range ents {
		if e.IsDir() || len(e.Name()) < 6 || e.Name()[len(e.Name())-5:] != ".json" {
			continue
		}
		b, err := os.ReadFile(dir + "/" + e.Name())
		if err != nil {
			continue
		}
		var c Case
		if json.Unmarshal(b, &c) != nil {
			continue
		}
		check, ok := registry[c.Property]
		if !ok {
			continue
		}
		c.Violation, c.Signature = "", ""
		st.Class("regression-replays")
		if v := evalCase(&c, check); v != nil {
			t.Fatalf("regression case %s violates %s [%s]: %s", e.Name(), c.Property, v.Signature, v.Detail)
		}
	}
}
