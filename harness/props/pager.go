package props

import (
	"fmt"
	nurl "net/url"
	"strconv"
	"strings"

	"pgregory.net/rapid"
)

// PagerModel: a numbered pager mixing real pattern links with placeholder, off-site and malformed
// anchors, embedded in an article page. Used by C16, C11 and C13.

type pagerPage struct {
	HTML    string
	PageURL string
	Kinds   map[string]bool
}

type pagerFamily struct {
	name string
	link func(base string, k int) string // base = scheme://host
}

var pagerFamilies = []pagerFamily{
	{"query-page", func(b string, k int) string { return fmt.Sprintf("%s/forum/thread?page=%d", b, k) }},
	{"query-page-b", func(b string, k int) string { return fmt.Sprintf("%s/forum/topic.html?page=%d", b, k) }},
	{"query-page-c", func(b string, k int) string { return fmt.Sprintf("%s/forum/story-b.html?page=%d", b, k) }},
	{"query-two", func(b string, k int) string { return fmt.Sprintf("%s/view.php?id=77&p=%d", b, k) }},
	{"path-num", func(b string, k int) string { return fmt.Sprintf("%s/story/slug/%d", b, k) }},
	{"path-page-num", func(b string, k int) string { return fmt.Sprintf("%s/blog/page/%d/", b, k) }},
	{"file-dash", func(b string, k int) string { return fmt.Sprintf("%s/news/story-%d.html", b, k) }},
	{"two-numbers", func(b string, k int) string { return fmt.Sprintf("%s/zine/%d/piece-%d", b, (k+1)/2, k) }},
	{"query-multi", func(b string, k int) string { return fmt.Sprintf("%s/list?cat=%d&page=%d&sort=%d", b, 1+k%2, k, 2) }},
	// a query whose last parameter ends in a slash
	{"query-trailing-slash", func(b string, k int) string { return fmt.Sprintf("%s/list?page=%d&back=/news/", b, k) }},
	// escaped reserved characters in the path: unescaping them changes the URL ("%25" -> "%", "%3F" -> "?")
	{"escaped-percent", func(b string, k int) string { return fmt.Sprintf("%s/a/100%%25/page/%d", b, k) }},
	{"escaped-qmark", func(b string, k int) string { return fmt.Sprintf("%s/a/what%%3Fx/page/%d", b, k) }},
	// a percent-escaped path segment (the page URL then has two spellings inside the library)
	{"escaped-dir", func(b string, k int) string {
		if k <= 1 {
			return b + "/caf%C3%A9/story"
		}
		return fmt.Sprintf("%s/caf%%C3%%A9/story/%d", b, k)
	}},
	// the first page is the directory itself (page URL with a trailing slash), the others live below it
	{"dir-sub-num", func(b string, k int) string {
		if k <= 1 {
			return b + "/forum/thread-12/"
		}
		return fmt.Sprintf("%s/forum/thread-12/%d", b, k)
	}},
}

var pagerItemKinds = []wc{{"link", 50}, {"plain", 8}, {"decorated", 5}, {"js", 7}, {"empty", 5}, {"offsite", 5}, {"mailto", 3}, {"malformed", 3},
	{"pattern2", 5}, {"queryonly", 6}, {"fragment", 2}, {"lookalike", 3}, {"userinfo", 3}, {"schemerel", 3}, {"upperhost", 2}, {"relative", 5}, {"otherscheme", 2}, {"padded", 4}, {"docrel", 5}, {"withfragment", 4}, {"schemerel-offsite", 3}, {"gap", 3}, {"unicodehost", 4}}

func genPager(t *rapid.T) pagerPage {
	g := newG(t, articleProfile())
	scheme := g.pick("pscheme", "http", "https")
	host := g.pick("phost", "example.com", "www.example.org", "news.site.test:8080", "Example.COM", "wiki.example.com")
	base := scheme + "://" + host
	fam := pagerFamilies[g.intn(0, len(pagerFamilies)-1, "fam")]
	fam2 := pagerFamilies[g.intn(0, len(pagerFamilies)-1, "fam2")]
	n := g.intn(2, 9, "pn")
	k := g.intn(1, n, "pk")
	kinds := map[string]bool{}
	// two equally long runs of consecutive numbers around one gap, the reader on the first page, and
	// a page URL that carries a parameter the pager links do not have: which run "wins" must not
	// depend on anything but the page
	tie := g.chance(6, "tie")
	if tie {
		n = 2*g.intn(2, 4, "tierun") + 1
		k = 1
		kinds["tie:two-equal-runs"] = true
	}
	otherHost := g.pick("ohost", "other.example.net", "example.com.evil.net", "evil-example.com")

	cur := fam.link(base, k)
	if g.chance(15, "bareurl") {
		// the first page often has no page parameter
		cur = strings.SplitN(fam.link(base, 1), "?", 2)[0]
	}
	if tie && !strings.Contains(cur, "#") {
		if strings.Contains(cur, "?") {
			cur += "&ref=home"
		} else {
			cur += "?ref=home"
		}
	}
	hrefFor := func(kind string, i int) string {
		switch kind {
		case "link":
			return fam.link(base, i)
		case "schemerel-offsite":
			return fam.link("//"+otherHost, i)
		case "withfragment":
			// a pager link that also names a place in the target page
			u := fam.link(base, i)
			if g.chance(50, "fragrel") {
				u = u[len(base):]
			}
			return u + g.pick("fragv", "#content", "#top", "#comments-3")
		case "padded":
			// white space around the value is not part of the reference
			u := fam.link(base, i)
			if g.chance(60, "padrel") {
				u = u[len(base):]
			}
			return g.pick("padl", " ", "\n", "\t ", "") + u + g.pick("padr", " ", "\n", " \t", " ")
		case "docrel":
			// relative to the directory of the page URL where the target lies below it
			u := fam.link(base, i)
			dir := cur
			if q := strings.IndexAny(dir, "?#"); q >= 0 {
				dir = dir[:q]
			}
			dir = dir[:strings.LastIndex(dir, "/")+1]
			if strings.HasPrefix(u, dir) && len(u) > len(dir) && len(dir) > len(base) {
				return u[len(dir):]
			}
			return u[len(base):]
		case "relative":
			u := fam.link(base, i)
			return u[len(base):]
		case "jspath":
			return "javascript:" + fam.link("", i)
		case "js":
			if g.chance(25, "jspath") {
				// a script URL that looks like a pager link after its scheme
				return "javascript:" + fam.link("", i)
			}
			return fmt.Sprintf(g.pick("jsform", "javascript:go(%d)", "javascript:go(%d)", "JavaScript:go(%d)", "JAVASCRIPT:go(%d)", " javascript:go(%d)", "javascript:void(%d)"), i)
		case "queryonly":
			u := fam.link(base, i)
			if q := strings.Index(u, "?"); q >= 0 {
				return u[q:]
			}
			return u
		case "empty":
			return ""
		case "offsite":
			return fam.link(scheme+"://"+otherHost, i)
		case "mailto":
			return fmt.Sprintf("mailto:page%d@example.com", i)
		case "malformed":
			return g.pick("mal", "http://[::1/"+strconv.Itoa(i), "%zz/"+strconv.Itoa(i), "http://exa mple.com/"+strconv.Itoa(i), "ht!tp://x/"+strconv.Itoa(i))
		case "pattern2":
			return fam2.link(base, i)
		case "fragment":
			return "#p" + strconv.Itoa(i)
		case "lookalike":
			return fam.link(scheme+"://"+strings.ToLower(strings.Split(host, ":")[0])+".evil.net", i)
		case "userinfo":
			return fam.link(scheme+"://"+strings.ToLower(strings.Split(host, ":")[0])+"@evil.net", i)
		case "unicodehost":
			// another host: one "i" of the page's host is U+0130 (capital I with dot), which is no case
			// variant of "i" in host names although strings.ToLower maps it there
			h := strings.ToLower(host)
			if j := strings.Index(h, "i"); j >= 0 {
				return fam.link(scheme+"://"+h[:j]+"\u0130"+h[j+1:], i)
			}
			return fam.link(scheme+"://"+otherHost, i)
		case "schemerel":
			return fam.link("//"+host, i)
		case "upperhost":
			return fam.link(scheme+"://"+strings.ToUpper(host), i)
		case "otherscheme":
			return fam.link("ftp://"+host, i)
		}
		return ""
	}

	var items []string
	allScript := g.chance(5, "allscript") // every numbered link is a script URL that mimics a pager link
	for i := 1; i <= n; i++ {
		kind := g.weighted("ik", pagerItemKinds)
		if allScript {
			kind = "jspath"
		}
		if (fam.name == "dir-sub-num" || strings.HasPrefix(fam.name, "escaped")) && kind == "link" && g.chance(50, "famdocrel") {
			kind = "docrel" // these families are about how relative links are resolved
		}
		if i == k && g.chance(80, "curplain") {
			kind = g.pick("curk", "plain", "decorated")
		}
		if tie {
			switch {
			case i == 1:
				kind = "plain"
			case i == (n+1)/2:
				kind = "gap"
			default:
				kind = "link"
			}
		}
		kinds[kind] = true
		label := strconv.Itoa(i)
		if g.chance(10, "lbl") {
			label = g.pick("lblk", "("+label+")", "["+label+"]", " "+label+" ")
		}
		switch kind {
		case "gap":
			// numbers left out of the pager: two runs of consecutive numbers
			items = append(items, g.pick("gapt", "…", "...", "&hellip;"))
		case "plain":
			items = append(items, label)
		case "decorated":
			tag := g.pick("dec", "b", "strong", "span", "em")
			items = append(items, "<"+tag+">"+label+"</"+tag+">")
		default:
			items = append(items, `<a href="`+htmlEsc(hrefFor(kind, i))+`">`+label+`</a>`)
		}
	}
	// optional Prev/Next style anchors
	var extra []string
	if g.chance(60, "hasnext") {
		kind := g.weighted("nk2", pagerItemKinds)
		if kind == "plain" || kind == "decorated" {
			kind = "link"
		}
		kinds["next:"+kind] = true
		extra = append(extra, `<a href="`+htmlEsc(hrefFor(kind, min(k+1, n+1)))+`"`+g.pick("ncls", "", ` class="next"`, ` id="pagination-next"`, ` rel="next"`)+`>`+
			g.pick("nlbl", "Next", "next page", "»", "older", "Next »", "continue", "weiter", ">")+`</a>`)
	}
	if g.chance(50, "hasprev") {
		kind := g.weighted("pk2", pagerItemKinds)
		if kind == "plain" || kind == "decorated" {
			kind = "link"
		}
		kinds["prev:"+kind] = true
		extra = append([]string{`<a href="` + htmlEsc(hrefFor(kind, max(k-1, 0))) + `"` + g.pick("pcls", "", ` class="prev"`, ` rel="prev"`) + `>` +
			g.pick("plbl", "Prev", "Previous", "«", "newer", "« Prev", "<") + `</a>`}, extra...)
	}
	// anchors with "extraneous" texts (comments, print, share ...) that point at the same URLs as
	// pager links: the prev/next finder bans such URLs
	if g.chance(25, "extraneous") {
		ne := g.intn(1, 2, "nextr")
		for i := 0; i < ne; i++ {
			kinds["extraneous"] = true
			target := g.intn(max(1, k-1), min(n, k+1), "extrtarget")
			a := `<a href="` + htmlEsc(hrefFor("link", target)) + `">` + g.pick("extrtxt", "Comments", "Print", "Share", "View all", "Single page", "Reply", "E-mail", "3 comments") + `</a>`
			if g.chance(50, "extrfirst") {
				extra = append([]string{a}, extra...)
			} else {
				extra = append(extra, a)
			}
		}
	}
	sep := g.pick("psep", " ", " | ", "\n", " · ", "")
	wrapper := g.pick("pwrap", "div", "p", "ul", "nav", "span")
	var pager string
	if wrapper == "ul" {
		var b strings.Builder
		b.WriteString(`<ul class="` + g.pick("pcl", "pager", "pagination", "pages", "links") + `">`)
		for _, it := range append(append([]string{}, items...), extra...) {
			b.WriteString("<li>" + it + "</li>")
		}
		b.WriteString("</ul>")
		pager = b.String()
	} else {
		all := append(append([]string{}, items...), extra...)
		if len(extra) > 0 && g.chance(50, "extrafirst") {
			all = append(append([]string{}, extra...), items...)
		}
		pager = "<" + wrapper + ` class="` + g.pick("pcl", "pager", "pagination", "pages", "links") + `">` + g.pick("plabel", "", "Pages: ", "Page ") + strings.Join(all, sep) + "</" + wrapper + ">"
	}
	var b strings.Builder
	b.WriteString("<!DOCTYPE html><html><head><title>" + g.words(3) + "</title></head><body>\n")
	nb := g.intn(1, 4, "pre")
	for i := 0; i < nb; i++ {
		b.WriteString(g.block(g.weighted("pb", []wc{{"longpara", 50}, {"para", 30}, {"list", 10}, {"dtable", 5}, {"figure", 5}})))
	}
	b.WriteString(pager + "\n")
	if g.chance(40, "after") {
		b.WriteString(g.para())
	}
	if g.chance(30, "second-pager") {
		// a second group of numbers (e.g. comment counts) to create competing candidates
		b.WriteString("<div>")
		m := g.intn(2, 4, "sp")
		for i := 1; i <= m; i++ {
			b.WriteString(fmt.Sprintf(`<a href="%s">%d</a> `, htmlEsc(fam2.link(base, i)), i))
		}
		b.WriteString("</div>\n")
		kinds["second-pager"] = true
	}
	b.WriteString("</body></html>")
	if g.chance(8, "pagefrag") {
		cur += g.pick("pagefragv", "#top", "#comments")
		kinds["page-url-with-fragment"] = true
	}
	return pagerPage{HTML: b.String(), PageURL: cur, Kinds: kinds}
}

// normalizedTargets resolves every <a href> of doc against pageURL (harness side, net/url) and
// returns the set of targets with fragment and one trailing "/" removed: scheme://host/path?query.
func normTarget(u *nurl.URL) string {
	v := *u
	v.Fragment, v.RawFragment = "", ""
	v.Path = strings.TrimSuffix(v.Path, "/")
	v.RawPath = ""
	v.Host = strings.ToLower(v.Host)
	v.Scheme = strings.ToLower(v.Scheme)
	v.User = nil
	return v.String()
}

// genURLPager builds numbered pagers whose link URLs and page URL are assembled from a tiny segment
// alphabet, so that self-similar paths, repeated segments, numbers at several positions and page
// URLs that only partly match the link pattern arise (aimed at the index arithmetic of the URL
// pattern code).
func genURLPager(t *rapid.T) pagerPage {
	// each case uses its own alphabet of 1-3 segments, so that self-similar URLs are common
	full := []string{"a", "b", "1", "2", "12", "a-1", "p2", "x.html", "page", "a.htm", "2012", "07"}
	alpha := []string{full[rapid.IntRange(0, len(full)-1).Draw(t, "alpha0")]}
	for i := rapid.IntRange(0, 2).Draw(t, "alphasize"); i > 0; i-- {
		alpha = append(alpha, full[rapid.IntRange(0, len(full)-1).Draw(t, "alphaN")])
	}
	seg := func(label string) string {
		return alpha[rapid.IntRange(0, len(alpha)-1).Draw(t, label)]
	}
	host := rapid.SampledFrom([]string{"example.com", "a.com", "1.example.com"}).Draw(t, "uhost")
	base := rapid.SampledFrom([]string{"http://", "https://"}).Draw(t, "uscheme") + host
	nseg := rapid.IntRange(1, 6).Draw(t, "nseg")
	slot := rapid.IntRange(0, nseg-1).Draw(t, "slot")
	slotForm := rapid.SampledFrom([]string{"N", "N", "a-N", "N.html", "pN", "page-N.htm", "N-a", "a_N_b"}).Draw(t, "slotform")
	segs := make([]string, nseg)
	for i := range segs {
		segs[i] = seg("seg")
	}
	query := rapid.SampledFrom([]string{"", "", "?x=1", "?page=N", "?p=N&x=2", "?a=1&page=N&b=2"}).Draw(t, "uquery")
	trailing := rapid.SampledFrom([]string{"", "", "/"}).Draw(t, "utrail")
	coef := rapid.SampledFrom([]int{1, 1, 1, 10, 2}).Draw(t, "coef")
	delta := rapid.SampledFrom([]int{0, 0, -1, 1}).Draw(t, "delta")
	link := func(k int) string {
		v := strconv.Itoa(max(0, coef*k+delta))
		p := ""
		for i, s := range segs {
			if i == slot {
				s = strings.ReplaceAll(slotForm, "N", v)
			}
			p += "/" + s
		}
		return base + p + trailing + strings.ReplaceAll(query, "N", v)
	}
	n := rapid.IntRange(2, 6).Draw(t, "un")
	k := rapid.IntRange(1, n).Draw(t, "uk")
	var b strings.Builder
	b.WriteString("<html><head><title>x</title></head><body><p>" + strings.Repeat("word ", 25) + "</p><div>")
	for i := 1; i <= n; i++ {
		if i == k && rapid.IntRange(0, 3).Draw(t, "curlink") > 0 {
			b.WriteString(" " + strconv.Itoa(i) + " ")
			continue
		}
		b.WriteString(` <a href="` + htmlEsc(link(i)) + `">` + strconv.Itoa(i) + `</a> `)
	}
	b.WriteString("</div></body></html>")
	var pageURL string
	switch rapid.IntRange(0, 5).Draw(t, "upage") {
	case 0, 1:
		pageURL = link(k)
	case 2: // the pattern with the number segment dropped
		p := ""
		for i, s := range segs {
			if i != slot {
				p += "/" + s
			}
		}
		pageURL = base + p
	case 3: // a prefix of the link path
		p := ""
		for i := 0; i < rapid.IntRange(0, nseg).Draw(t, "uprefix"); i++ {
			p += "/" + segs[i]
		}
		pageURL = base + p + trailing
	case 4: // an unrelated path from the same alphabet
		p := ""
		for i := 0; i < rapid.IntRange(1, 6).Draw(t, "ulen"); i++ {
			p += "/" + seg("useg")
		}
		pageURL = base + p
	default: // the link path with the number segment replaced by a word
		p := ""
		for i, s := range segs {
			if i == slot {
				s = seg("urepl")
			}
			p += "/" + s
		}
		pageURL = base + p + trailing
	}
	return pagerPage{HTML: b.String(), PageURL: pageURL, Kinds: map[string]bool{"url-structure": true}}
}
