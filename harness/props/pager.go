package props

import (
	"fmt"
	nurl "net/url"
	"strconv"
	"strings"

	"pgregory.net/rapid"
)

// PagerModel: a numbered pager mixing real pattern links with placeholder, off-site and malformed
// anchors, embedded in an article page. Used by C16, C11 and C13.

type pagerPage struct {
	HTML    string
	PageURL string
	Kinds   map[string]bool
}

type pagerFamily struct {
	name string
	link func(base string, k int) string // base = scheme://host
}

var pagerFamilies = []pagerFamily{
	{"query-page", func(b string, k int) string { return fmt.Sprintf("%s/forum/thread?page=%d", b, k) }},
	{"query-two", func(b string, k int) string { return fmt.Sprintf("%s/view.php?id=77&p=%d", b, k) }},
	{"path-num", func(b string, k int) string { return fmt.Sprintf("%s/story/slug/%d", b, k) }},
	{"path-page-num", func(b string, k int) string { return fmt.Sprintf("%s/blog/page/%d/", b, k) }},
	{"file-dash", func(b string, k int) string { return fmt.Sprintf("%s/news/story-%d.html", b, k) }},
	{"two-numbers", func(b string, k int) string { return fmt.Sprintf("%s/zine/%d/piece-%d", b, (k+1)/2, k) }},
	{"query-multi", func(b string, k int) string { return fmt.Sprintf("%s/list?cat=%d&page=%d&sort=%d", b, 1+k%2, k, 2) }},
}

var pagerItemKinds = []wc{{"link", 50}, {"plain", 8}, {"decorated", 5}, {"js", 7}, {"empty", 5}, {"offsite", 5}, {"mailto", 3}, {"malformed", 3},
	{"pattern2", 5}, {"fragment", 2}, {"lookalike", 3}, {"userinfo", 3}, {"schemerel", 3}, {"upperhost", 2}, {"relative", 5}, {"otherscheme", 2}}

func genPager(t *rapid.T) pagerPage {
	g := newG(t, articleProfile())
	scheme := g.pick("pscheme", "http", "https")
	host := g.pick("phost", "example.com", "www.example.org", "news.site.test:8080", "Example.COM")
	base := scheme + "://" + host
	fam := pagerFamilies[g.intn(0, len(pagerFamilies)-1, "fam")]
	fam2 := pagerFamilies[g.intn(0, len(pagerFamilies)-1, "fam2")]
	n := g.intn(2, 9, "pn")
	k := g.intn(1, n, "pk")
	kinds := map[string]bool{}
	otherHost := g.pick("ohost", "other.example.net", "example.com.evil.net", "evil-example.com")

	hrefFor := func(kind string, i int) string {
		switch kind {
		case "link":
			return fam.link(base, i)
		case "relative":
			u := fam.link(base, i)
			return u[len(base):]
		case "js":
			return fmt.Sprintf("javascript:go(%d)", i)
		case "empty":
			return ""
		case "offsite":
			return fam.link(scheme+"://"+otherHost, i)
		case "mailto":
			return fmt.Sprintf("mailto:page%d@example.com", i)
		case "malformed":
			return g.pick("mal", "http://[::1/"+strconv.Itoa(i), "%zz/"+strconv.Itoa(i), "http://exa mple.com/"+strconv.Itoa(i), "ht!tp://x/"+strconv.Itoa(i))
		case "pattern2":
			return fam2.link(base, i)
		case "fragment":
			return "#p" + strconv.Itoa(i)
		case "lookalike":
			return fam.link(scheme+"://"+strings.ToLower(strings.Split(host, ":")[0])+".evil.net", i)
		case "userinfo":
			return fam.link(scheme+"://"+strings.ToLower(strings.Split(host, ":")[0])+"@evil.net", i)
		case "schemerel":
			return fam.link("//"+host, i)
		case "upperhost":
			return fam.link(scheme+"://"+strings.ToUpper(host), i)
		case "otherscheme":
			return fam.link("ftp://"+host, i)
		}
		return ""
	}

	var items []string
	for i := 1; i <= n; i++ {
		kind := g.weighted("ik", pagerItemKinds)
		if i == k && g.chance(80, "curplain") {
			kind = g.pick("curk", "plain", "decorated")
		}
		kinds[kind] = true
		label := strconv.Itoa(i)
		if g.chance(10, "lbl") {
			label = g.pick("lblk", "("+label+")", "["+label+"]", " "+label+" ")
		}
		switch kind {
		case "plain":
			items = append(items, label)
		case "decorated":
			tag := g.pick("dec", "b", "strong", "span", "em")
			items = append(items, "<"+tag+">"+label+"</"+tag+">")
		default:
			items = append(items, `<a href="`+htmlEsc(hrefFor(kind, i))+`">`+label+`</a>`)
		}
	}
	// optional Prev/Next style anchors
	var extra []string
	if g.chance(60, "hasnext") {
		kind := g.weighted("nk2", pagerItemKinds)
		if kind == "plain" || kind == "decorated" {
			kind = "link"
		}
		kinds["next:"+kind] = true
		extra = append(extra, `<a href="`+htmlEsc(hrefFor(kind, min(k+1, n+1)))+`"`+g.pick("ncls", "", ` class="next"`, ` id="pagination-next"`, ` rel="next"`)+`>`+
			g.pick("nlbl", "Next", "next page", "»", "older", "Next »", "continue", "weiter", ">")+`</a>`)
	}
	if g.chance(50, "hasprev") {
		kind := g.weighted("pk2", pagerItemKinds)
		if kind == "plain" || kind == "decorated" {
			kind = "link"
		}
		kinds["prev:"+kind] = true
		extra = append([]string{`<a href="` + htmlEsc(hrefFor(kind, max(k-1, 0))) + `"` + g.pick("pcls", "", ` class="prev"`, ` rel="prev"`) + `>` +
			g.pick("plbl", "Prev", "Previous", "«", "newer", "« Prev", "<")+`</a>`}, extra...)
	}
	sep := g.pick("psep", " ", " | ", "\n", " · ", "")
	wrapper := g.pick("pwrap", "div", "p", "ul", "nav", "span")
	var pager string
	if wrapper == "ul" {
		var b strings.Builder
		b.WriteString(`<ul class="` + g.pick("pcl", "pager", "pagination", "pages", "links") + `">`)
		for _, it := range append(append([]string{}, items...), extra...) {
			b.WriteString("<li>" + it + "</li>")
		}
		b.WriteString("</ul>")
		pager = b.String()
	} else {
		all := append(append([]string{}, items...), extra...)
		if len(extra) > 0 && g.chance(50, "extrafirst") {
			all = append(append([]string{}, extra...), items...)
		}
		pager = "<" + wrapper + ` class="` + g.pick("pcl", "pager", "pagination", "pages", "links") + `">` + g.pick("plabel", "", "Pages: ", "Page ") + strings.Join(all, sep) + "</" + wrapper + ">"
	}
	var b strings.Builder
	b.WriteString("<!DOCTYPE html><html><head><title>" + g.words(3) + "</title></head><body>\n")
	nb := g.intn(1, 4, "pre")
	for i := 0; i < nb; i++ {
		b.WriteString(g.block(g.weighted("pb", []wc{{"longpara", 50}, {"para", 30}, {"list", 10}, {"dtable", 5}, {"figure", 5}})))
	}
	b.WriteString(pager + "\n")
	if g.chance(40, "after") {
		b.WriteString(g.para())
	}
	if g.chance(30, "second-pager") {
		// a second group of numbers (e.g. comment counts) to create competing candidates
		b.WriteString("<div>")
		m := g.intn(2, 4, "sp")
		for i := 1; i <= m; i++ {
			b.WriteString(fmt.Sprintf(`<a href="%s">%d</a> `, htmlEsc(fam2.link(base, i)), i))
		}
		b.WriteString("</div>\n")
		kinds["second-pager"] = true
	}
	b.WriteString("</body></html>")
	cur := fam.link(base, k)
	if g.chance(15, "bareurl") {
		// the first page often has no page parameter
		cur = strings.SplitN(fam.link(base, 1), "?", 2)[0]
	}
	return pagerPage{HTML: b.String(), PageURL: cur, Kinds: kinds}
}

// normalizedTargets resolves every <a href> of doc against pageURL (harness side, net/url) and
// returns the set of targets with fragment and one trailing "/" removed: scheme://host/path?query.
func normTarget(u *nurl.URL) string {
	v := *u
	v.Fragment, v.RawFragment = "", ""
	v.Path = strings.TrimSuffix(v.Path, "/")
	v.RawPath = ""
	v.Host = strings.ToLower(v.Host)
	v.Scheme = strings.ToLower(v.Scheme)
	v.User = nil
	return v.String()
}
