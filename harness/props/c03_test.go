package props

import (
	"strings"
	"testing"

	"golang.org/x/net/html"
	"pgregory.net/rapid"
)

// C03 — a simple paragraph is kept or dropped as a whole.

func init() { register("C03", checkC03) }

func genC03(t *rapid.T) *Case {
	p := articleProfile()
	// inline mix biased towards the kinds the property names, javascript: anchors in particular;
	// hidden inline spans exercise "every visible word".
	p.Inline = []wc{{"text", 40}, {"b", 5}, {"i", 4}, {"em", 4}, {"strong", 4}, {"span", 5}, {"u", 3}, {"code", 4},
		{"font", 4}, {"a", 8}, {"ajs1", 9}, {"ajsn", 8}, {"br", 4}, {"brbr", 5}, {"nest", 4}, {"hid", 2}, {"brlast", 4}, {"aempty", 5}}
	p.Top = append(append([]wc{}, p.Top...), wc{"para", 20}, wc{"list", 6}, wc{"quote", 5}, wc{"ltable", 4}, wc{"dtable", 3})
	p.Core = append(append([]wc{}, p.Core...), wc{"para", 20}, wc{"list", 6}, wc{"quote", 5}, wc{"ltable", 4}, wc{"dtable", 3})
	p.LessThanInCaptions = true
	p.Attr = func(g *G, tag string) string {
		if simpleInline[tag] && tag != "br" && g.intn(0, 14, "ariafalse") == 0 {
			return ` aria-hidden="false"` // says what is the default anyway
		}
		return ""
	}
	p.Top = append(p.Top, wc{"figure", 8})
	p.Core = append(p.Core, wc{"figure", 8})
	g := newG(t, p)
	c := &Case{Property: "C03", HTML: g.page()}
	// now and then the whole article sits very deep in the tree (hundreds of wrapper elements)
	if g.intn(0, 11, "deepwrap") == 0 {
		depth := g.intn(100, 900, "deepn")
		c.HTML = strings.Replace(c.HTML, "<body>\n", "<body>\n"+strings.Repeat("<div>", depth), 1)
		c.HTML = strings.Replace(c.HTML, "</body>", strings.Repeat("</div>", depth)+"</body>", 1)
	}
	c.Opts = genOpts(t, 30)
	return c
}

var simpleInline = map[string]bool{"b": true, "i": true, "em": true, "strong": true, "span": true, "u": true, "code": true, "font": true, "a": true, "br": true}

// simpleParagraph implements the property's definition: only text, line breaks and plain inline
// formatting or link elements, nested arbitrarily; no inline display overrides.
func simpleParagraph(p *html.Node) (ok bool, kinds map[string]bool, jsFollowed bool) {
	kinds = map[string]bool{}
	ok = true
	var rec func(n *html.Node)
	rec = func(n *html.Node) {
		for c := n.FirstChild; c != nil; c = c.NextSibling {
			switch c.Type {
			case html.TextNode:
			case html.ElementNode:
				if !simpleInline[c.Data] {
					ok = false
					return
				}
				if st := strings.ToLower(attrVal(c, "style")); strings.Contains(st, "display") && !notRendered(c) {
					ok = false
					return
				}
				k := c.Data
				if c.Data == "a" && strings.HasPrefix(attrVal(c, "href"), "javascript:") {
					k = "a-js"
					if c.NextSibling != nil && strings.TrimSpace(render(c.NextSibling)) != "" || (c.NextSibling != nil && c.NextSibling.NextSibling != nil) {
						jsFollowed = true
					}
				}
				if notRendered(c) {
					k = "hidden-inline"
				}
				kinds[k] = true
				rec(c)
			default:
				ok = false
				return
			}
		}
	}
	rec(p)
	return
}

func checkC03(c *Case) (*Violation, caseInfo) {
	var info caseInfo
	doc, out := applyHTML(c.HTML, c.Opts)
	if out.Panicked || out.Err != nil || out.Res == nil {
		info.Skip = "apply-failed"
		return nil, info
	}
	src := walkSource(doc)
	kept := tokenSet(textTokens(out.Res.Text))
	byP := map[*html.Node][]*SrcTok{}
	var order []*html.Node
	for _, st := range src.Toks {
		para := st.P
		if para == nil && st.Text != nil {
			// a paragraph without <p> tags: text and inline elements standing directly in a table cell,
			// list item or quote (simpleParagraph decides below whether that is all the element holds)
			for a := st.Text.Parent; a != nil; a = a.Parent {
				if isElem(a, "td", "th", "li", "blockquote", "dd") {
					para = a
					break
				}
				if a.Type == html.ElementNode && !simpleInline[a.Data] {
					break
				}
			}
		}
		if para == nil {
			continue
		}
		if _, seen := byP[para]; !seen {
			order = append(order, para)
		}
		byP[para] = append(byP[para], st)
	}
	var viol *Violation
	keptSimple, droppedSimple, rich := 0, 0, 0
	for _, p := range order {
		if hasAncestor(p, func(a *html.Node) bool { return notRendered(a) || nonReading(a) }) || notRendered(p) {
			continue
		}
		if attrVal(p, "style") != "" && strings.Contains(strings.ToLower(attrVal(p, "style")), "display") {
			continue
		}
		ok, kinds, jsFollowed := simpleParagraph(p)
		if !ok {
			continue
		}
		var visible, in []string
		for _, st := range byP[p] {
			if st.Hidden || st.ClassB {
				continue
			}
			visible = append(visible, st.Tok)
			if kept[st.Tok] {
				in = append(in, st.Tok)
			}
		}
		if len(visible) == 0 {
			continue
		}
		place := "body"
		f := byP[p][0]
		switch {
		case f.DataTbl != nil:
			place = "data-table"
		case f.Table != nil:
			place = "layout-table"
		case strings.Contains(f.Chain, "li"):
			place = "list-item"
		case strings.Contains(f.Chain, "blockquote"):
			place = "blockquote"
		}
		info.Classes = append(info.Classes, "simple-p-in:"+place)
		if len(in) == 0 {
			droppedSimple++
		} else if len(in) == len(visible) {
			keptSimple++
		} else if viol == nil {
			var missing []string
			inset := tokenSet(in)
			for _, v := range visible {
				if !inset[v] {
					missing = append(missing, v)
				}
			}
			kk := ""
			for _, k := range []string{"a-js", "a", "br", "font", "code", "hidden-inline"} {
				if kinds[k] {
					kk += "+" + k
				}
			}
			viol = violationf("C03 paragraph cut place="+place+" inline="+kk,
				"simple paragraph in %s keeps %d of %d visible words; missing %v\nparagraph: %s", place, len(in), len(visible), missing, truncate(render(p), 600))
		}
		if len(kinds) >= 2 || jsFollowed {
			rich++
			if jsFollowed {
				info.Classes = append(info.Classes, "js-anchor-followed-by-siblings")
			}
		}
	}
	info.Classes = dedup(info.Classes)
	info.NonTrivial = rich >= 1 && keptSimple >= 1 && droppedSimple >= 1
	return viol, info
}

func TestC03(t *testing.T) { runProp(t, genC03, checkC03) }
