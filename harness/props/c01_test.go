package props

import (
	"bytes"
	"encoding/base64"
	"encoding/json"
	"fmt"
	"net/http"
	"net/http/httptest"
	"os"
	"path/filepath"
	"strings"
	"sync"
	"testing"
	"time"

	distiller "github.com/markusmobius/go-domdistiller"
	"golang.org/x/net/html"
	"golang.org/x/net/html/atom"
	"pgregory.net/rapid"
)

// C01 — every entry point is total: no panic, no hang, well-formed result.

func init() { register("C01", checkC01) }

// NodeSpec is a serialisable html.Node tree (nodes are built by hand, not by the parser).
type NodeSpec struct {
	T  int         `json:"t"` // html.NodeType
	D  string      `json:"d,omitempty"`
	A  [][2]string `json:"a,omitempty"`
	C  []*NodeSpec `json:"c,omitempty"`
	NA bool        `json:"na,omitempty"` // leave DataAtom unset even for known tags
}

type c01Extra struct {
	Layer    string    `json:"layer"` // "tree" | "bytes"
	Tree     *NodeSpec `json:"tree,omitempty"`
	RootPath []int     `json:"root_path,omitempty"` // child indexes from the tree top to the node handed to Apply
	Detach   bool      `json:"detach,omitempty"`    // hand over a detached deep clone of that node
	Chain    int       `json:"chain,omitempty"`     // if >0: wrap the tree top in that many nested elements (depth test)
	ChainTag string    `json:"chain_tag,omitempty"`
	Bytes    string    `json:"bytes_b64,omitempty"`
	Entry    string    `json:"entry,omitempty"` // "reader" | "file"
}

func buildNode(s *NodeSpec) *html.Node {
	n := &html.Node{Type: html.NodeType(s.T), Data: s.D}
	if n.Type == html.ElementNode && !s.NA {
		n.DataAtom = atom.Lookup([]byte(s.D))
	}
	for _, a := range s.A {
		n.Attr = append(n.Attr, html.Attribute{Key: a[0], Val: a[1]})
	}
	for _, c := range s.C {
		n.AppendChild(buildNode(c))
	}
	return n
}

func cloneDeep(n *html.Node) *html.Node {
	c := &html.Node{Type: n.Type, Data: n.Data, DataAtom: n.DataAtom, Namespace: n.Namespace, Attr: append([]html.Attribute{}, n.Attr...)}
	for ch := n.FirstChild; ch != nil; ch = ch.NextSibling {
		c.AppendChild(cloneDeep(ch))
	}
	return c
}

// ----- generators ---------------------------------------------------------

var c01Tags = []string{"div", "p", "span", "a", "a", "a", "b", "i", "em", "strong", "u", "code", "font", "br", "hr", "ul", "ol", "li", "li",
	"blockquote", "pre", "table", "thead", "tbody", "tfoot", "tr", "td", "th", "caption", "colgroup", "col", "figure", "figcaption",
	"picture", "source", "img", "noscript", "iframe", "object", "param", "embed", "video", "track", "svg", "form", "input", "button",
	"select", "option", "textarea", "h1", "h2", "h3", "section", "article", "header", "footer", "nav", "aside", "main", "script", "style",
	"link", "details", "summary", "applet", "abbr", "label", "html", "head", "body", "title", "meta", "", "DIV", "x-custom", "time"}

var c01Hrefs = []string{"javascript:void(0)", "javascript:", "", "#", "#x", "2", "page/2", "?page=2", "/a/b/3", "http://example.com/a/2",
	"http://example.com/a/b/1", "https://example.com/a/3", "http://other.example.net/a/2", "http://ȺȺȺȺȺȺ.com/", "http://ⱥⱥⱥⱥⱥⱥ.com/x/2",
	"mailto:x@example.com", "http://[::1", "%zz", "//example.com/x/4", "http://example.com/a/b?page=2", "http://example.com/a/b?page=3",
	"http://EXAMPLE.com/A/2", "http://example.com/a/2#frag", "tel:123", "data:text/html,<p>x</p>", "http://example.com/a/..", "http://İ.com/1",
	"http://example.com/article/2", "http://example.com/a/b/action=edit&section=1", "http://example.com/Kelvin/K2"}

var c01Srcs = []string{"http://www.youtube.com/embed/abc", "//www.youtube.com/v/abc&x=1", "https://player.vimeo.com/video/123", "https://player.vimeo.com/video/",
	"https://platform.twitter.com/embed/index.html", "http://www.youtube.com/embed/", "http://www.youtube.com/", "i.png", "/img/x.jpg", "data:image/png;base64,AAAA",
	"", "http://[::1/x.png", "%zz.png", "a.png 1x, b.png 2x", "http://twitter.com/u/status/", "http://youtube.com//", "x.webp 200w",
	// data: URLs cut off at every joint
	"data:image/gif;base64", "data:image/png;base64,", "data:;base64", "data:", "data:image/svg+xml;base64", "DATA:image/png;BASE64,AAAA", "data:image/png;base64,AAAA ", "data:image/gif;base64 ,R0lG", "data:image/png,base64"}

var c01Attrs = [][]string{
	{"class", "twitter-tweet", "lazy-image-placeholder", "sharing", "socialArea", "mw-editsection", "comment", "comments x", "sidebar", "byline", "author",
		"fallback-image", "pagination", "next", "prev page", "footer", "menu content", "dateline", "byline-name", "a b c d"},
	{"id", "comment", "sidebar", "main", "x", "author", "pager"},
	{"style", "display:none", "display:inline", "display:block", "display: inline-block;", "visibility:hidden", "display:", "display:list-item", "DISPLAY:NONE"},
	{"hidden", ""}, {"aria-hidden", "true", "false"},
	{"width", "0", "-1", "400", "600", "99999999999999999999", "4e2", ""}, {"height", "0", "-5", "300", "1", "abc", ""},
	{"role", "navigation", "presentation", "grid", "main", "row", "dialog", "menu"},
	{"srcset", "a.png 1x, b.png 2x", "", ",", "x 1x,,", " "},
	{"data-src", "l.png", ""}, {"data-srcset", "l.png 1x", ""}, {"data-tweet-id", "123", ""}, {"data-component", "share"},
	{"type", "application/x-shockwave-flash", "text"}, {"data", "http://www.youtube.com/v/xyz", "", "x.swf"},
	{"name", "movie", "title", "IE_RM_OFF", "copyright", "displaydate"}, {"value", "http://www.youtube.com/v/xyz&a=b", ""},
	{"contenteditable", "true", "TRUE"}, {"datatable", "0", "1"}, {"summary", "", "s"}, {"colspan", "abc", "100000", "-1", "2"}, {"rowspan", "3", "x"},
	{"rel", "author", "next", "prev"}, {"itemprop", "author", "name headline", "image", "publisher", "associatedMedia"}, {"itemscope", ""},
	{"itemtype", "http://schema.org/Article", "http://schema.org/Person", "http://schema.org/ImageObject", "http://schema.org/Organization", "http://schema.org/Foo"},
	{"property", "og:title", "og:type", "og:url", "og:image", "og:image:width", "article:author", "profile:first_name"},
	{"content", "article", "profile", "true", "x", "", "http://example.com/i.png"},
	{"prefix", "og: http://ogp.me/ns#", "x: http://ogp.me/ns/article#", "junk"}, {"xmlns:og", "http://ogp.me/ns#"},
	{"width", "500", "x"}, {"height", "300", "0"}, {"poster", "p.png", ""}, {"abbr", ""}, {"headers", "h"}, {"scope", "col"},
	{"publisher", "P"}, {"source_organization", "S"}, {"dir", "rtl"}, {"title", "t"}, {"alt", "some alt text"},
}

var c01Texts = []string{"", " ", "\n\t ", "1", "2", "3", "4", "10", "[2]", "(3)", "Next", "next page", "Prev", "Previous", "»", "«", "older", "word",
	"two words", "Comments", "Shares", "<p>markup like</p>", "a&b<c>", "中文字符测试内容", "한국어 텍스트", "日本語のテキスト", " ", "x y",
	"Title - Site", "A: B", "100", "101", "0", "-1", "1 2 3", "page 2 of 3", "Alpha Beta Gamma - Section - Site",
	"速報：本日のニュースまとめ記事です", "タイトル｜サイト名のページです", "한국어 제목： 부제목 텍스트 입니다", "Заголовок： подзаголовок статьи сайта", "a：b", "：", "one two three： four five",
	"Title » Section » Site", "A \\ B \\ C D E", "x > y > z w v", "Ⅻ ２ ３", "１", "２", "٣", "Next »", "‹ Prev", "\u200fRTL\u200e text \u200b zero width", "e\u0301 combining",
	"İstanbul Kelvin K ſ", "a\u00a0b\u00a0c d e f", strings.Repeat("长", 160), strings.Repeat("word ", 40) + ": tail"}

func genText(t *rapid.T) string {
	switch rapid.IntRange(0, 9).Draw(t, "txtk") {
	case 0, 1, 2, 3:
		return rapid.SampledFrom(c01Texts).Draw(t, "txt")
	case 4, 5, 6:
		n := rapid.IntRange(1, 12).Draw(t, "txtw")
		ws := make([]string, n)
		for i := range ws {
			ws[i] = fmt.Sprintf("w%d", i)
		}
		return strings.Join(ws, " ")
	case 7, 8:
		n := rapid.IntRange(17, 60).Draw(t, "txtl")
		ws := make([]string, n)
		for i := range ws {
			ws[i] = fmt.Sprintf("lw%d", i)
		}
		return strings.Join(ws, " ") + "."
	default:
		return rapid.StringN(0, 20, 40).Draw(t, "txtr")
	}
}

func genAttrs(t *rapid.T, tag string) [][2]string {
	var out [][2]string
	n := 0
	switch rapid.IntRange(0, 9).Draw(t, "attr#") {
	case 0, 1, 2, 3, 4:
		n = 0
	case 5, 6, 7:
		n = 1
	case 8:
		n = 2
	default:
		n = 4
	}
	switch tag {
	case "a", "link":
		if rapid.IntRange(0, 9).Draw(t, "hashref") < 8 {
			out = append(out, [2]string{"href", rapid.SampledFrom(c01Hrefs).Draw(t, "href")})
		}
	case "img", "iframe", "source", "video", "track", "embed":
		if rapid.IntRange(0, 9).Draw(t, "hassrc") < 8 {
			out = append(out, [2]string{"src", rapid.SampledFrom(c01Srcs).Draw(t, "src")})
		}
	}
	for i := 0; i < n; i++ {
		a := rapid.SampledFrom(c01Attrs).Draw(t, "attr")
		v := a[1+rapid.IntRange(0, len(a)-2).Draw(t, "attrv")]
		out = append(out, [2]string{a[0], v})
	}
	return out
}

func genTree(t *rapid.T, depth int, budget *int) *NodeSpec {
	*budget--
	kind := rapid.IntRange(0, 19).Draw(t, "nk")
	if depth <= 0 || *budget <= 0 {
		if kind < 14 {
			kind = 14
		}
	}
	switch {
	case kind < 13: // element with children
		tag := rapid.SampledFrom(c01Tags).Draw(t, "tag")
		n := &NodeSpec{T: int(html.ElementNode), D: tag, A: genAttrs(t, tag)}
		if rapid.IntRange(0, 19).Draw(t, "noatom") == 0 {
			n.NA = true
		}
		k := rapid.IntRange(0, 4).Draw(t, "kids")
		for i := 0; i < k && *budget > 0; i++ {
			n.C = append(n.C, genTree(t, depth-1, budget))
		}
		return n
	case kind == 13: // special shapes the code branches on
		switch rapid.IntRange(0, 5).Draw(t, "shape") {
		case 0: // javascript: anchor with exactly one text child
			return &NodeSpec{T: int(html.ElementNode), D: "a", A: [][2]string{{"href", "javascript:void(0)"}}, C: []*NodeSpec{{T: int(html.TextNode), D: genText(t)}}}
		case 1: // inline root with a long text
			return &NodeSpec{T: int(html.ElementNode), D: rapid.SampledFrom([]string{"span", "b", "a", "em", "font", "code"}).Draw(t, "inl"),
				C: []*NodeSpec{{T: int(html.TextNode), D: "lw1 lw2 lw3 lw4 lw5 lw6 lw7 lw8 lw9 lw10 lw11 lw12 lw13 lw14 lw15 lw16 lw17 lw18 lw19 lw20."}}}
		case 2: // pager
			n := &NodeSpec{T: int(html.ElementNode), D: "div"}
			for i := 1; i <= 4; i++ {
				if i == rapid.IntRange(1, 4).Draw(t, "cur") {
					n.C = append(n.C, &NodeSpec{T: int(html.TextNode), D: fmt.Sprintf(" %d ", i)})
				} else {
					n.C = append(n.C, &NodeSpec{T: int(html.ElementNode), D: "a", A: [][2]string{{"href", rapid.SampledFrom(c01Hrefs).Draw(t, "phref")}},
						C: []*NodeSpec{{T: int(html.TextNode), D: fmt.Sprint(i)}}})
				}
			}
			return n
		case 3: // figure with noscript image
			return &NodeSpec{T: int(html.ElementNode), D: "figure", C: []*NodeSpec{
				{T: int(html.ElementNode), D: "noscript", C: []*NodeSpec{{T: int(html.TextNode), D: `<img src="n.png">`}}},
				{T: int(html.ElementNode), D: "figcaption", C: []*NodeSpec{{T: int(html.TextNode), D: genText(t)}}}}}
		case 4: // tweet
			return &NodeSpec{T: int(html.ElementNode), D: "blockquote", A: [][2]string{{"class", "twitter-tweet"}}, C: []*NodeSpec{
				{T: int(html.ElementNode), D: "a", A: [][2]string{{"href", rapid.SampledFrom([]string{"https://twitter.com/u/status/1", "https://twitter.com/", "//twitter.com", "x"}).Draw(t, "twh")}}}}}
		default: // text node with children (impossible for the parser, possible by hand)
			return &NodeSpec{T: int(html.TextNode), D: "odd text", C: []*NodeSpec{{T: int(html.ElementNode), D: "b"}}}
		}
	case kind < 18:
		return &NodeSpec{T: int(html.TextNode), D: genText(t)}
	case kind == 18:
		return &NodeSpec{T: int(html.CommentNode), D: "a comment"}
	default:
		return &NodeSpec{T: rapid.SampledFrom([]int{int(html.DoctypeNode), int(html.RawNode), int(html.ErrorNode), int(html.DocumentNode)}).Draw(t, "oddtype"), D: "html"}
	}
}

var c01URLs = []OptSpec{
	{}, {URL: "http://example.com/a/b/2"}, {URL: "http://example.com/a/b?page=1"}, {URL: "https://example.com/"}, {URL: "http://example.com"},
	{URL: "http://ⱥⱥⱥⱥⱥⱥ.com/a/1"}, {URL: "http://ȺȺȺȺȺȺ.com/x/1"}, {URL: "http://İ.com/a/1"}, {URL: "http://example.com/Kelvin/K1"},
	{URL: "relative/path/2"}, {URL: "/rooted/2"}, {URL: "mailto:x@y.z"}, {URL: "http://user:pw@example.com:8080/a/1"}, {URL: "http://[::1]:80/a/2"},
	{URL: "HTTP://EXAMPLE.COM/A/1"}, {URL: "http://example.com/a/b/1/"}, {URL: "http://example.com/a%2Fb/1"}, {URL: "http://example.com/a/1#frag"},
	{URLMode: `raw:{}`}, {URLMode: `raw:{"Scheme":"http"}`}, {URLMode: `raw:{"Host":"example.com"}`}, {URLMode: `raw:{"Scheme":"http","Host":"example.com","Path":"no-slash/1"}`},
	{URLMode: `raw:{"Scheme":"http","Host":"example.com","Path":"/a b/1","RawPath":"bogus"}`}, {URLMode: `raw:{"Opaque":"opaque:1"}`},
	{URLMode: `raw:{"Scheme":"http","Host":"exa mple.com","Path":"/1"}`}, {URLMode: `raw:{"Scheme":"http","Host":"example.com","Path":"/%zz/1"}`},
}

func genC01Opts(t *rapid.T) OptSpec {
	if rapid.IntRange(0, 19).Draw(t, "optnil") == 0 {
		return OptSpec{Nil: true}
	}
	o := rapid.SampledFrom(c01URLs).Draw(t, "url")
	if rapid.IntRange(0, 2).Draw(t, "urlbias") == 0 {
		o = c01URLs[1+rapid.IntRange(0, 7).Draw(t, "urlcommon")]
	}
	if rapid.IntRange(0, 4).Draw(t, "log") == 0 {
		o.LogFlags = uint(rapid.IntRange(0, 31).Draw(t, "logflags"))
	}
	o.Skip = rapid.IntRange(0, 5).Draw(t, "skip") == 0
	o.Algo = uint(rapid.IntRange(0, 1).Draw(t, "algo"))
	return o
}

func genC01Tree(t *rapid.T) *Case {
	budget := rapid.SampledFrom([]int{8, 30, 120, 400}).Draw(t, "budget")
	var top *NodeSpec
	switch rapid.IntRange(0, 3).Draw(t, "topk") {
	case 0: // document > html > head+body
		body := &NodeSpec{T: int(html.ElementNode), D: "body"}
		for budget > 0 {
			body.C = append(body.C, genTree(t, 5, &budget))
		}
		head := &NodeSpec{T: int(html.ElementNode), D: "head", C: []*NodeSpec{{T: int(html.ElementNode), D: "title", C: []*NodeSpec{{T: int(html.TextNode), D: genText(t)}}}}}
		top = &NodeSpec{T: int(html.DocumentNode), C: []*NodeSpec{{T: int(html.ElementNode), D: "html", C: []*NodeSpec{head, body}}}}
	case 1: // bare element tree
		top = genTree(t, 6, &budget)
	default: // a container with several subtrees
		top = &NodeSpec{T: int(html.ElementNode), D: rapid.SampledFrom([]string{"div", "body", "ul", "span", "table", "p"}).Draw(t, "topt")}
		for budget > 0 {
			top.C = append(top.C, genTree(t, 5, &budget))
		}
	}
	ex := c01Extra{Layer: "tree", Tree: top}
	// choose the node that is handed to Apply
	cur := top
	for rapid.IntRange(0, 2).Draw(t, "descend") > 0 && len(cur.C) > 0 {
		i := rapid.IntRange(0, len(cur.C)-1).Draw(t, "child")
		ex.RootPath = append(ex.RootPath, i)
		cur = cur.C[i]
	}
	ex.Detach = rapid.Bool().Draw(t, "detach")
	if rapid.IntRange(0, 99).Draw(t, "deep") == 0 {
		ex.Chain = rapid.SampledFrom([]int{50, 500, 2000}).Draw(t, "chain")
		ex.ChainTag = rapid.SampledFrom([]string{"div", "span", "li", "ul", "blockquote", "table", "a", "font"}).Draw(t, "chaintag")
	}
	c := &Case{Property: "C01", Kind: "tree", Opts: genC01Opts(t)}
	c.SetExtra(ex)
	return c
}

// byte layer: renderings of generated pages, mutated at byte level.
func genC01Bytes(t *rapid.T) *Case {
	p := carrierProfile()
	p.MaxTop = 6
	g := newG(t, p)
	var src []byte
	switch rapid.IntRange(0, 5).Draw(t, "bsrc") {
	case 0:
		src = rapid.SliceOfN(rapid.Byte(), 0, 200).Draw(t, "raw")
	case 1:
		src = []byte(pagerHTMLForC01(t))
	default:
		src = []byte(g.page())
	}
	nm := rapid.IntRange(0, 4).Draw(t, "muts")
	for i := 0; i < nm && len(src) > 0; i++ {
		switch rapid.IntRange(0, 7).Draw(t, "mut") {
		case 0: // truncate
			src = src[:rapid.IntRange(0, len(src)).Draw(t, "cut")]
		case 1: // drop a range
			a := rapid.IntRange(0, len(src)-1).Draw(t, "a")
			b := rapid.IntRange(a, min(len(src), a+40)).Draw(t, "b")
			src = append(append([]byte{}, src[:a]...), src[b:]...)
		case 2: // duplicate a range
			a := rapid.IntRange(0, len(src)-1).Draw(t, "a")
			b := rapid.IntRange(a, min(len(src), a+200)).Draw(t, "b")
			src = append(append(append([]byte{}, src[:b]...), src[a:b]...), src[b:]...)
		case 3: // random bytes
			a := rapid.IntRange(0, len(src)).Draw(t, "a")
			ins := rapid.SliceOfN(rapid.Byte(), 1, 8).Draw(t, "ins")
			src = append(append(append([]byte{}, src[:a]...), ins...), src[a:]...)
		case 4: // BOM / encoding prefix
			bom := rapid.SampledFrom([][]byte{{0xEF, 0xBB, 0xBF}, {0xFF, 0xFE}, {0xFE, 0xFF}, {0x00, 0x00, 0xFE, 0xFF}}).Draw(t, "bom")
			src = append(append([]byte{}, bom...), src...)
		case 5: // charset declaration
			cs := rapid.SampledFrom([]string{"shift_jis", "gbk", "utf-16", "utf-16le", "iso-8859-1", "x-user-defined", "bogus-charset", "euc-kr", "big5", "utf-7"}).Draw(t, "cs")
			src = append([]byte(`<meta charset="`+cs+`">`), src...)
		case 6: // hostile constant
			a := rapid.IntRange(0, len(src)).Draw(t, "a")
			ins := rapid.SampledFrom([]string{`<a href="javascript:void(0)">x</a>`, "</li></ul></div>", "<table><tr><td>", "<li>", "<svg><title>", "<template>", "</body>", "<frameset>",
				"<plaintext>", "\x00", "<select><option>", "<math><mi>", `<font size=1>`, `<a href="http://ȺȺȺȺȺȺ.com/">2</a>`, "<!--", "<![CDATA[", "<noscript>", "<figure><noscript>"}).Draw(t, "hc")
			src = append(append(append([]byte{}, src[:a]...), []byte(ins)...), src[a:]...)
		case 7: // latin-1 bytes
			a := rapid.IntRange(0, len(src)).Draw(t, "a")
			src = append(append(append([]byte{}, src[:a]...), 0xE9, 0xE8, 0xFC, 0xA0), src[a:]...)
		}
	}
	c := &Case{Property: "C01", Kind: "bytes", Opts: genC01Opts(t)}
	c.SetExtra(c01Extra{Layer: "bytes", Bytes: base64.StdEncoding.EncodeToString(src), Entry: rapid.SampledFrom([]string{"reader", "reader", "file"}).Draw(t, "entry")})
	return c
}

func pagerHTMLForC01(t *rapid.T) string {
	var b strings.Builder
	b.WriteString("<html><body><p>" + strings.Repeat("word ", 30) + "</p><div class=\"pagination\">")
	n := rapid.IntRange(2, 6).Draw(t, "pn")
	cur := rapid.IntRange(1, n).Draw(t, "pcur")
	for i := 1; i <= n; i++ {
		if i == cur {
			b.WriteString(fmt.Sprintf(" <b>%d</b> ", i))
		} else {
			b.WriteString(fmt.Sprintf(` <a href="%s">%d</a> `, rapid.SampledFrom(c01Hrefs).Draw(t, "ph"), i))
		}
	}
	b.WriteString(`<a href="` + rapid.SampledFrom(c01Hrefs).Draw(t, "nh") + `">Next</a></div></body></html>`)
	return b.String()
}

// ----- oracle --------------------------------------------------------------

func c01Root(ex *c01Extra) *html.Node {
	top := buildNode(ex.Tree)
	if ex.Chain > 0 {
		tag := ex.ChainTag
		if tag == "" {
			tag = "div"
		}
		for i := 0; i < ex.Chain; i++ {
			w := &html.Node{Type: html.ElementNode, Data: tag, DataAtom: atom.Lookup([]byte(tag))}
			w.AppendChild(top)
			top = w
		}
	}
	cur := top
	if ex.Chain == 0 {
		for _, i := range ex.RootPath {
			k := 0
			var ch *html.Node
			for ch = cur.FirstChild; ch != nil && k < i; ch = ch.NextSibling {
				k++
			}
			if ch == nil {
				break
			}
			cur = ch
		}
	}
	if ex.Detach {
		return cloneDeep(cur)
	}
	return cur
}

func persistCurrent(c *Case) {
	p := os.Getenv("VERIF_CURRENT")
	if p == "" {
		return
	}
	cc := *c
	cc.Violation = "the process died while this case was executing"
	cc.Signature = "C01 process-fatal"
	b, _ := json.Marshal(&cc)
	os.WriteFile(p, b, 0o644)
}

const c01Watchdog = 30 * time.Second

func checkC01(c *Case) (*Violation, caseInfo) {
	if c.Kind == "url" {
		return checkC01URL(c)
	}
	if strings.HasPrefix(c.Kind, "probe:") {
		return checkC01Probe(c)
	}
	var info caseInfo
	var ex c01Extra
	c.GetExtra(&ex)
	persistCurrent(c)
	var out callOutcome
	rootKind := ""
	switch ex.Layer {
	case "tree":
		if ex.Tree == nil {
			info.Skip = "no-tree"
			return nil, info
		}
		root := c01Root(&ex)
		switch {
		case root.Type == html.DocumentNode:
			rootKind = "document"
		case root.Type != html.ElementNode:
			rootKind = "non-element"
		case root.Parent == nil && ex.Detach:
			rootKind = "detached-element"
		case root.Parent == nil:
			rootKind = "top-element"
		default:
			rootKind = "attached-sub-element"
		}
		if ex.Chain > 0 {
			rootKind = "deep-chain"
		}
		opts := c.Opts.Build()
		out = guarded(c01Watchdog, func() (*distiller.Result, error) { return distiller.Apply(root, opts) })
	case "bytes":
		data, err := base64.StdEncoding.DecodeString(ex.Bytes)
		if err != nil {
			info.Skip = "bad-base64"
			return nil, info
		}
		opts := c.Opts.Build()
		if ex.Entry == "file" {
			rootKind = "file"
			dir := os.Getenv("VERIF_SCRATCH")
			if dir == "" {
				dir = os.TempDir()
			}
			f := filepath.Join(dir, fmt.Sprintf("c01-%d.html", os.Getpid()))
			if err := os.WriteFile(f, data, 0o644); err != nil {
				info.Skip = "cannot-write-scratch-file"
				return nil, info
			}
			out = guarded(c01Watchdog, func() (*distiller.Result, error) { return distiller.ApplyForFile(f, opts) })
			os.Remove(f)
		} else {
			rootKind = "reader"
			out = guarded(c01Watchdog, func() (*distiller.Result, error) { return distiller.ApplyForReader(bytes.NewReader(data), opts) })
		}
	default:
		info.Skip = "unknown-layer"
		return nil, info
	}
	info.Classes = append(info.Classes, "root:"+rootKind)
	switch {
	case c.Opts.Nil:
		info.Classes = append(info.Classes, "opts:nil")
	case c.Opts.URL == "" && c.Opts.URLMode == "":
		info.Classes = append(info.Classes, "opts:no-url")
	case c.Opts.URLMode != "":
		info.Classes = append(info.Classes, "opts:hand-built-url")
	case strings.HasPrefix(c.Opts.URL, "http://example.com") || strings.HasPrefix(c.Opts.URL, "https://example.com"):
		info.Classes = append(info.Classes, "opts:plain-url")
	default:
		info.Classes = append(info.Classes, "opts:odd-url")
	}
	if c.Opts.Algo == 1 && !c.Opts.Skip {
		info.Classes = append(info.Classes, "algo:PageNumber")
	}
	if c.Opts.LogFlags != 0 {
		info.Classes = append(info.Classes, "logging-on")
	}

	var viol *Violation
	switch {
	case out.Hung:
		viol = violationf("C01 hang root="+rootKind, "call did not return within %v", c01Watchdog)
	case out.Panicked:
		viol = violationf("C01 panic "+firstRepoFrame(out.Stack)+" "+panicClass(out.PanicVal),
			"panic: %s (root kind %s)\n%s", out.PanicVal, rootKind, truncate(out.Stack, 3000))
	case out.Err != nil:
		info.Classes = append(info.Classes, "returned-error")
	case out.Res == nil:
		viol = violationf("C01 nil-result", "nil result without error")
	case out.Res.Node == nil:
		viol = violationf("C01 nil-node", "result has a nil content node")
	case out.Res.Node.Type != html.ElementNode || out.Res.Node.Data != "div":
		viol = violationf("C01 node-not-div", "content node is %v %q, not a div element", out.Res.Node.Type, out.Res.Node.Data)
	default:
		if out.Res.WordCount > 0 {
			info.Classes = append(info.Classes, "content-extracted")
			info.NonTrivial = true
		}
		if out.Res.PaginationInfo.NextPage != "" || out.Res.PaginationInfo.PrevPage != "" {
			info.Classes = append(info.Classes, "pagination-found")
			info.NonTrivial = true
		}
	}
	if viol != nil {
		info.NonTrivial = true
	}
	return viol, info
}

func TestC01Tree(t *testing.T)  { runProp(t, genC01Tree, checkC01) }
func TestC01Bytes(t *testing.T) { runProp(t, genC01Bytes, checkC01) }

// ----- third layer: generated pages whose parsed trees are mutated structurally ------------------

func toSpec(n *html.Node) *NodeSpec {
	s := &NodeSpec{T: int(n.Type), D: n.Data}
	for _, a := range n.Attr {
		s.A = append(s.A, [2]string{a.Key, a.Val})
	}
	for c := n.FirstChild; c != nil; c = c.NextSibling {
		s.C = append(s.C, toSpec(c))
	}
	return s
}

func specNodes(s *NodeSpec, parent *NodeSpec, idx int, visit func(n, parent *NodeSpec, idx int)) {
	visit(s, parent, idx)
	for i, c := range s.C {
		specNodes(c, s, i, visit)
	}
}

var c01HideAttrs = [][2]string{{"hidden", ""}, {"style", "display:none"}, {"style", "visibility:hidden"}, {"aria-hidden", "true"}, {"style", "display:inline"},
	{"style", "display:block"}, {"class", "twitter-tweet"}, {"class", "lazy-image-placeholder"}, {"contenteditable", "true"}, {"role", "presentation"},
	{"class", "sidebar"}, {"class", "comment"}, {"class", "byline"}, {"href", "javascript:void(0)"}, {"href", ""}, {"src", ""}, {"srcset", ""}, {"colspan", "x"}}

func genC01Page(t *rapid.T) *Case {
	var page string
	switch pk := rapid.IntRange(0, 5).Draw(t, "pk"); {
	case pk == 0:
		page = genPager(t).HTML
	case pk == 1:
		page = genC14(t).HTML // structured markup of every source, nested items included
	default:
		p := rewriteProfile()
		p.MaxTop = 7
		page = newG(t, p).page()
	}
	doc, err := html.Parse(strings.NewReader(page))
	if err != nil {
		t.Skip("parse failed")
	}
	top := toSpec(doc)
	nm := rapid.IntRange(1, 6).Draw(t, "nmut")
	for m := 0; m < nm; m++ {
		type ref struct {
			n, parent *NodeSpec
			idx       int
		}
		var all []ref
		specNodes(top, nil, 0, func(n, parent *NodeSpec, idx int) { all = append(all, ref{n, parent, idx}) })
		// prefer elements the code special-cases
		var special []ref
		for _, r := range all {
			if r.n.T == int(html.ElementNode) {
				switch r.n.D {
				case "figure", "figcaption", "table", "tr", "td", "th", "caption", "li", "ul", "ol", "a", "img", "picture", "source", "video", "iframe", "blockquote", "noscript", "font", "body", "html", "head", "title", "pre", "object":
					special = append(special, r)
				}
			}
		}
		pool := all
		if len(special) > 0 && rapid.IntRange(0, 9).Draw(t, "special") < 7 {
			pool = special
		}
		r := pool[rapid.IntRange(0, len(pool)-1).Draw(t, "mnode")]
		switch rapid.IntRange(0, 9).Draw(t, "mkind") {
		case 0, 1, 2, 3:
			a := c01HideAttrs[rapid.IntRange(0, len(c01HideAttrs)-1).Draw(t, "hattr")]
			if rapid.IntRange(0, 3).Draw(t, "anyattr") == 0 {
				l := rapid.SampledFrom(c01Attrs).Draw(t, "attr")
				a = [2]string{l[0], l[1+rapid.IntRange(0, len(l)-2).Draw(t, "attrv")]}
			}
			r.n.A = append(r.n.A, a)
		case 4, 5:
			if r.parent != nil {
				r.parent.C = append(append([]*NodeSpec{}, r.parent.C[:r.idx]...), r.parent.C[r.idx+1:]...)
			}
		case 6:
			if r.n.T == int(html.ElementNode) {
				r.n.D = rapid.SampledFrom(c01Tags).Draw(t, "newtag")
			}
		case 7:
			if r.parent != nil {
				w := &NodeSpec{T: int(html.ElementNode), D: rapid.SampledFrom(c01Tags).Draw(t, "wraptag"), C: []*NodeSpec{r.n}}
				r.parent.C[r.idx] = w
			}
		case 8:
			if r.parent != nil {
				r.parent.C = append(r.parent.C, r.n) // the same spec twice builds two separate nodes
			}
		default:
			if r.n.T == int(html.TextNode) {
				r.n.D = genText(t)
			} else {
				r.n.C = nil
			}
		}
	}
	ex := c01Extra{Layer: "tree", Tree: top}
	cur := top
	for rapid.IntRange(0, 3).Draw(t, "descend") > 1 && len(cur.C) > 0 {
		i := rapid.IntRange(0, len(cur.C)-1).Draw(t, "child")
		ex.RootPath = append(ex.RootPath, i)
		cur = cur.C[i]
	}
	ex.Detach = rapid.IntRange(0, 3).Draw(t, "detach") == 0
	c := &Case{Property: "C01", Kind: "mutated-page", Opts: genC01Opts(t)}
	c.SetExtra(ex)
	return c
}

func TestC01Page(t *testing.T) { runProp(t, genC01Page, checkC01) }

// ----- fourth layer: pagers whose URLs are assembled from a tiny alphabet ------------------------

func genC01Pager(t *rapid.T) *Case {
	var pg pagerPage
	if rapid.IntRange(0, 2).Draw(t, "pagermodel") == 0 {
		// the pager grammar of C16 (percent-escaped families, padded and malformed hrefs, ...): C16
		// itself sets a panicking call aside as "C01's business"
		pg = genPager(t)
	} else {
		pg = genURLPager(t)
	}
	doc, err := html.Parse(strings.NewReader(pg.HTML))
	if err != nil {
		t.Skip("parse failed")
	}
	c := &Case{Property: "C01", Kind: "url-pager", Opts: OptSpec{URL: pg.PageURL, Algo: uint(rapid.SampledFrom([]int{1, 1, 1, 0}).Draw(t, "algo"))}}
	if rapid.IntRange(0, 9).Draw(t, "log") == 0 {
		c.Opts.LogFlags = 8
	}
	c.SetExtra(c01Extra{Layer: "tree", Tree: toSpec(doc)})
	return c
}

func TestC01Pager(t *testing.T) { runProp(t, genC01Pager, checkC01) }

// ----- fifth layer: ApplyForURL against a loopback server -----------------------------------------

type c01URLExtra struct {
	Layer       string `json:"layer"` // "url"
	Bytes       string `json:"bytes_b64"`
	ContentType string `json:"content_type"`
	Status      int    `json:"status"`
	Target      string `json:"target"` // "" = the loopback page, otherwise a literal URL handed to ApplyForURL
}

var (
	c01SrvOnce sync.Once
	c01Srv     *httptest.Server
	c01SrvErr  error
	c01Pages   sync.Map
)

type c01Served struct {
	body   []byte
	ctype  string
	status int
}

func c01Server() (*httptest.Server, error) {
	c01SrvOnce.Do(func() {
		defer func() {
			if r := recover(); r != nil {
				c01SrvErr = fmt.Errorf("cannot listen on loopback: %v", r)
			}
		}()
		c01Srv = httptest.NewServer(http.HandlerFunc(func(w http.ResponseWriter, r *http.Request) {
			v, ok := c01Pages.Load(r.URL.Path)
			if !ok {
				http.NotFound(w, r)
				return
			}
			p := v.(c01Served)
			if p.ctype != "" {
				w.Header().Set("Content-Type", p.ctype)
			}
			if p.status == 302 {
				w.Header().Set("Location", "/missing")
			}
			w.WriteHeader(p.status)
			w.Write(p.body)
		}))
	})
	return c01Srv, c01SrvErr
}

func genC01URL(t *rapid.T) *Case {
	b := genC01Bytes(t)
	var bx c01Extra
	b.GetExtra(&bx)
	ex := c01URLExtra{Layer: "url", Bytes: bx.Bytes,
		ContentType: rapid.SampledFrom([]string{"text/html", "text/html; charset=utf-8", "text/html; charset=shift_jis", "TEXT/HTML", "application/xhtml+xml", "application/json", "", "text/plain", "text/html;charset=bogus"}).Draw(t, "ctype"),
		Status:      rapid.SampledFrom([]int{200, 200, 200, 404, 500, 302, 204}).Draw(t, "status"),
		Target:      rapid.SampledFrom([]string{"", "", "", "", "relative/path", "", "http://[::1", "http://127.0.0.1:1/x", "mailto:x@y", "/rooted", "http://", "javascript:void(0)", "file:///etc/passwd"}).Draw(t, "target"),
	}
	c := &Case{Property: "C01", Kind: "url", Opts: b.Opts}
	c.SetExtra(ex)
	return c
}

func checkC01URL(c *Case) (*Violation, caseInfo) {
	var info caseInfo
	var ex c01URLExtra
	c.GetExtra(&ex)
	persistCurrent(c)
	srv, err := c01Server()
	if err != nil || srv == nil {
		info.Skip = "no-loopback"
		return nil, info
	}
	data, derr := base64.StdEncoding.DecodeString(ex.Bytes)
	if derr != nil {
		info.Skip = "bad-base64"
		return nil, info
	}
	path := "/p/" + shortHash(ex.Bytes+ex.ContentType+fmt.Sprint(ex.Status))
	status := ex.Status
	if status == 0 {
		status = 200
	}
	c01Pages.Store(path, c01Served{data, ex.ContentType, status})
	target := ex.Target
	if target == "" {
		target = srv.URL + path
	}
	opts := c.Opts.Build()
	out := guarded(c01Watchdog, func() (*distiller.Result, error) { return distiller.ApplyForURL(target, 5*time.Second, opts) })
	info.Classes = append(info.Classes, "root:url", fmt.Sprintf("url-status:%d", status))
	var viol *Violation
	switch {
	case out.Hung:
		viol = violationf("C01 hang root=url", "ApplyForURL did not return within %v", c01Watchdog)
	case out.Panicked:
		viol = violationf("C01 panic "+firstRepoFrame(out.Stack)+" "+panicClass(out.PanicVal), "panic in ApplyForURL(%q): %s\n%s", target, out.PanicVal, truncate(out.Stack, 3000))
	case out.Err != nil:
		info.Classes = append(info.Classes, "returned-error")
	case out.Res == nil || out.Res.Node == nil || out.Res.Node.Type != html.ElementNode || out.Res.Node.Data != "div":
		viol = violationf("C01 malformed-result root=url", "ApplyForURL returned neither an error nor a result with a div content node")
	default:
		info.NonTrivial = out.Res.WordCount > 0
	}
	return viol, info
}

func TestC01URL(t *testing.T) { runProp(t, genC01URL, checkC01URL) }
