package props

import (
	"encoding/json"
	"fmt"
	nurl "net/url"
	"os"
	"path/filepath"
	"regexp"
	"strings"
	"testing"
	"time"

	distiller "github.com/markusmobius/go-domdistiller"
	"golang.org/x/net/html"
	"pgregory.net/rapid"
)

// C11 — the result is a deterministic function of document and options.

func init() { register("C11", checkC11) }

type c11Doc struct {
	HTML string  `json:"html"`
	Opts OptSpec `json:"opts"`
	Kind string  `json:"kind"`
	// Legacy: the bytes of the document are not UTF-8: every U+E0B0 of HTML stands for the byte pair
	// B0 A1 (a character in EUC-KR, GB18030, EUC-JP and Big5, two in Shift_JIS). Such a document has
	// no reference parse; it is only handed to the byte-stream entry points, whose results must be
	// the same from call to call.
	Legacy bool `json:"legacy,omitempty"`
}

// Bytes returns the document as handed to the byte-stream entry points.
func (d c11Doc) Bytes() string {
	if d.Legacy {
		return strings.ReplaceAll(d.HTML, "\ue0b0", "\xb0\xa1")
	}
	return d.HTML
}

// legacyDoc: digits and one double-byte character of a legacy East Asian encoding.
func legacyDoc(t *rapid.T) c11Doc {
	var b strings.Builder
	b.WriteString("<html><head><title>12345 67890 \ue0b0 2468</title></head><body><div><p>")
	n := rapid.IntRange(20, 80).Draw(t, "legacyn")
	for i := 0; i < n; i++ {
		b.WriteString(fmt.Sprintf("%d %d %d. ", 1000+i, 5678+i*3, 9012-i))
	}
	b.WriteString("\ue0b0 </p></div></body></html>")
	return c11Doc{HTML: b.String(), Opts: OptSpec{Nil: rapid.Bool().Draw(t, "legacynil")}, Kind: "legacy-bytes", Legacy: true}
}

type c11Step struct {
	Doc   int    `json:"doc"`
	Entry string `json:"entry"` // apply | apply-shared-tree | reader | file
}

type c11Extra struct {
	Docs    []c11Doc  `json:"docs"`
	Repeat  int       `json:"repeat"`
	History []c11Step `json:"history"`
}

// canonical renders everything of a Result except TimingInfo.
func canonical(res *distiller.Result) string {
	if res == nil {
		return "<nil result>"
	}
	type canon struct {
		URL, Title, Text, HTML string
		WordCount              int
		ContentImages          []string
		MarkupInfo             interface{}
		PaginationInfo         interface{}
	}
	imgs := res.ContentImages
	if imgs == nil {
		imgs = []string{}
	}
	h := ""
	if res.Node != nil {
		h = render(res.Node)
	}
	mi := res.MarkupInfo
	if mi.Article.Authors == nil {
		mi.Article.Authors = []string{}
	}
	b, _ := json.Marshal(canon{res.URL, res.Title, res.Text, h, res.WordCount, imgs, mi, res.PaginationInfo})
	return string(b)
}

func diffCanon(a, b string) string {
	var ma, mb map[string]interface{}
	json.Unmarshal([]byte(a), &ma)
	json.Unmarshal([]byte(b), &mb)
	var out []string
	for k := range ma {
		x, _ := json.Marshal(ma[k])
		y, _ := json.Marshal(mb[k])
		if string(x) != string(y) {
			out = append(out, fmt.Sprintf("%s: %s  !=  %s", k, truncate(string(x), 300), truncate(string(y), 300)))
		}
	}
	return strings.Join(out, "\n")
}

func diffFields(a, b string) string {
	var ma, mb map[string]interface{}
	json.Unmarshal([]byte(a), &ma)
	json.Unmarshal([]byte(b), &mb)
	var out []string
	for _, k := range []string{"URL", "Title", "Text", "HTML", "WordCount", "ContentImages", "MarkupInfo", "PaginationInfo"} {
		x, _ := json.Marshal(ma[k])
		y, _ := json.Marshal(mb[k])
		if string(x) != string(y) {
			out = append(out, k)
		}
	}
	return strings.Join(out, "+")
}

const schemaSnippet = `<div itemscope itemtype="http://schema.org/Article"><h2 itemprop="headline">Head One</h2><span itemprop="author" itemscope itemtype="http://schema.org/Person"><span itemprop="name">Ann A</span></span>
<meta itemprop="datePublished" content="2020-01-01"><img itemprop="image" src="/a.png"></div>
<div itemscope itemtype="http://schema.org/NewsArticle"><h2 itemprop="headline">Head Two</h2><span itemprop="publisher" itemscope itemtype="http://schema.org/Organization"><span itemprop="name">Org</span></span></div>
<div itemscope itemtype="http://schema.org/ImageObject"><meta itemprop="contentUrl" content="/io.png"><meta itemprop="representativeOfPage" content="true"></div>`

const ogSnippet = `<meta property="og:title" content="OG Title"><meta property="og:type" content="article"><meta property="og:url" content="http://example.com/og"><meta property="og:image" content="http://example.com/og.png"><meta property="article:author" content="http://example.com/a1"><meta property="article:author" content="http://example.com/a2"><meta name="title" content="IE title"><meta name="copyright" content="(c) IE">`

func genC11Doc(t *rapid.T) c11Doc {
	switch rapid.IntRange(0, 11).Draw(t, "dk") {
	case 0, 1, 2, 3:
		pg := genPager(t)
		o := OptSpec{URL: pg.PageURL, Algo: uint(rapid.IntRange(0, 1).Draw(t, "algo"))}
		if rapid.IntRange(0, 5).Draw(t, "log") == 0 {
			o.LogFlags = uint(rapid.IntRange(0, 31).Draw(t, "lf"))
		}
		return c11Doc{HTML: pg.HTML, Opts: o, Kind: "pager"}
	case 4, 5:
		g := newG(t, carrierProfile())
		page := g.page()
		if rapid.Bool().Draw(t, "markup") {
			page = strings.Replace(page, "</head>", ogSnippet+"</head>", 1)
			page = strings.Replace(page, "</body>", schemaSnippet+"</body>", 1)
		}
		return c11Doc{HTML: page, Opts: genOpts(t, 60), Kind: "article+markup"}
	case 6, 7, 8:
		// a page from the markup grammar of C14 (all OpenGraph prefix declarations, schema.org items, IE tags)
		mc := genC14(t)
		return c11Doc{HTML: mc.HTML, Opts: genOpts(t, 60), Kind: "markup-grammar"}
	default:
		g := newG(t, carrierProfile())
		return c11Doc{HTML: g.page(), Opts: genOpts(t, 60), Kind: "article"}
	}
}

// softHyphenSnippet: precomposed text with soft hyphens (German hyphenation hints) and nothing that NFC would change.
const softHyphenSnippet = "<p>Die Donau\u00addampf\u00adschiff\u00adfahrts\u00adgesell\u00adschaft f\u00e4hrt \u00fcber die Stra\u00dfe co\u00adoperate soft\u00adhyphen text text text text text text text text text text text text text.</p>"

// unicodeSnippet holds text that the byte-stream entry points normalise (decomposed accents, Hangul
// jamo, soft hyphens, NFC singletons): they must treat it exactly as Apply on the reference parse.
const unicodeSnippet = "<p>re\u0301sume\u0301 co\u00adoperate nai\u0308ve \u1112\u1161\u11ab \u212b \u2126 fi\u00adnal e\u0301te\u0301 " +
	"cafe\u0301 soft\u00adhyphen A\u030a o\u0302 u\u0308 n\u0303 text text text text text text text text text text text text.</p>" +
	// compatibility characters: the normalisation is canonical (NFC), it must leave them alone
	"<p>\ufb01nancial of\ufb02ine 12 km\u00b2 5 \u00b5m \u00bd cup \u2167 Acme\u2122 \uff37\uff29\uff24\uff25 x\u00b9 \u2460 text text text text text text text text text text text.</p>"

func genC11(t *rapid.T) *Case {
	ex := c11Extra{Repeat: 8}
	n := rapid.IntRange(1, 3).Draw(t, "ndocs")
	for i := 0; i < n; i++ {
		if rapid.IntRange(0, 9).Draw(t, "legacy") == 0 {
			ex.Docs = append(ex.Docs, legacyDoc(t))
			continue
		}
		d := genC11Doc(t)
		switch rapid.IntRange(0, 5).Draw(t, "unicode") {
		case 0, 1:
			d.HTML = strings.Replace(d.HTML, "</body>", unicodeSnippet+"</body>", 1)
		case 2:
			// hyphenation hints only: the page is in NFC already, yet not what the entry points parse
			d.HTML = strings.Replace(d.HTML, "</body>", softHyphenSnippet+"</body>", 1)
			if rapid.Bool().Draw(t, "shytitle") {
				d.HTML = strings.Replace(d.HTML, "</title>", " Donau\u00addampf\u00adschiff</title>", 1)
			}
		}
		if rapid.IntRange(0, 5).Draw(t, "headnoscript") == 0 {
			// a <noscript> with flow content in the head (the "please enable JavaScript" notice) and one
			// with a block inside a paragraph: how they are parsed depends on the parser's scripting flag
			d.HTML = strings.Replace(d.HTML, "</head>", `<noscript><p>please enable javascript hb9001q hb9002q</p><img src="/track.gif"></noscript></head>`, 1)
			d.HTML = strings.Replace(d.HTML, "</body>", `<p>before hb9003q <noscript><div>inside hb9004q hb9005q</div></noscript> after text text text text text text text text text text.</p></body>`, 1)
		}
		if rapid.IntRange(0, 3).Draw(t, "sparse") == 0 {
			// one non-ASCII word in English prose (short: several encodings are equally likely;
			// long: a legacy code page looks more likely than UTF-8 to a statistical guesser)
			para := sparseNonASCIIParagraph(rapid.SampledFrom([]string{"café", "Zürich", "don’t", "naïve", "señor", "œuvre"}).Draw(t, "special"), rapid.Bool().Draw(t, "longprose"))
			d.HTML = strings.Replace(d.HTML, "</body>", para+"</body>", 1)
		}
		ex.Docs = append(ex.Docs, d)
	}
	h := rapid.IntRange(2, 10).Draw(t, "hist")
	for i := 0; i < h; i++ {
		ex.History = append(ex.History, c11Step{Doc: rapid.IntRange(0, n-1).Draw(t, "hdoc"),
			Entry: rapid.SampledFrom([]string{"apply", "apply-shared-tree", "reader", "file", "apply", "url"}).Draw(t, "entry")})
	}
	c := &Case{Property: "C11"}
	c.SetExtra(ex)
	return c
}

func checkC11(c *Case) (*Violation, caseInfo) {
	var info caseInfo
	var ex c11Extra
	c.GetExtra(&ex)
	if len(ex.Docs) == 0 {
		info.Skip = "no-docs"
		return nil, info
	}
	model := make([]string, len(ex.Docs))
	modelURL := make([]string, len(ex.Docs)) // first result of the "url" entry per document (its page URL is the loopback address)
	shared := make([]*html.Node, len(ex.Docs))
	run := func(i int, entry string) (string, bool) {
		d := ex.Docs[i]
		var out callOutcome
		if d.Legacy && entry != "file" {
			entry = "reader" // no reference parse for bytes in a legacy encoding
		}
		switch entry {
		case "reader":
			out = guarded(0, func() (*distiller.Result, error) {
				return distiller.ApplyForReader(strings.NewReader(d.Bytes()), d.Opts.Build())
			})
		case "file":
			dir := os.Getenv("VERIF_SCRATCH")
			if dir == "" {
				dir = os.TempDir()
			}
			f := filepath.Join(dir, fmt.Sprintf("c11-%d.html", os.Getpid()))
			os.WriteFile(f, []byte(d.Bytes()), 0o644)
			out = guarded(0, func() (*distiller.Result, error) { return distiller.ApplyForFile(f, d.Opts.Build()) })
			os.Remove(f)
		case "url":
			// ApplyForURL with the caller's options (nil included): its result has the loopback
			// address as page URL, so it has a model of its own; what matters is that the calls
			// after it still give their first results
			server, err := pageServer()
			if err != nil || server == nil || d.Legacy {
				return model[i], true
			}
			path := "/c11/" + shortHash(d.HTML) + "/page.html"
			srvPages.Store(path, d.HTML)
			out = guarded(0, func() (*distiller.Result, error) {
				return distiller.ApplyForURL(server.URL+path, 10*time.Second, d.Opts.Build())
			})
			if out.Panicked {
				return "", false
			}
			got := "error"
			if out.Err == nil && out.Res != nil {
				got = canonical(out.Res)
			}
			if modelURL[i] == "" {
				modelURL[i] = got
			}
			if got != modelURL[i] {
				return "url-entry-differs: " + diffFields(modelURL[i], got), true
			}
			return model[i], true
		case "apply-shared-tree":
			if shared[i] == nil {
				shared[i], _ = refParse(d.HTML)
			}
			out = guarded(0, func() (*distiller.Result, error) { return distiller.Apply(shared[i], d.Opts.Build()) })
		default:
			doc, err := refParse(d.HTML)
			if err != nil {
				return "", false
			}
			out = guarded(0, func() (*distiller.Result, error) { return distiller.Apply(doc, d.Opts.Build()) })
		}
		if out.Panicked {
			return "", false
		}
		if out.Err != nil {
			return "error: " + out.Err.Error(), true
		}
		return canonical(out.Res), true
	}
	hasPager, hasURL := false, false
	// phase 1: K repeated runs of the same call
	for i := range ex.Docs {
		if ex.Docs[i].Kind == "pager" {
			hasPager = true
		}
		if ex.Docs[i].Opts.URL != "" {
			hasURL = true
		}
		for r := 0; r < max(2, ex.Repeat); r++ {
			got, ok := run(i, "apply")
			if !ok {
				info.Skip = "apply-panicked"
				return nil, info
			}
			if r == 0 {
				model[i] = got
				continue
			}
			if got != model[i] {
				return violationf("C11 repeated-runs-differ fields="+diffFields(model[i], got)+" kind="+ex.Docs[i].Kind,
					"run %d of Apply on document %d differs from run 0:\n%s", r, i, diffCanon(model[i], got)), info
			}
		}
	}
	// phase 2: history over entry points, interleaving documents
	for s, st := range ex.History {
		if st.Doc >= len(ex.Docs) {
			continue
		}
		got, ok := run(st.Doc, st.Entry)
		if !ok {
			info.Skip = "apply-panicked"
			return nil, info
		}
		if got != model[st.Doc] {
			return violationf("C11 history-differs entry="+st.Entry+" fields="+diffFields(model[st.Doc], got),
				"step %d (%s on document %d) differs from the first result for that document:\n%s", s, st.Entry, st.Doc, diffCanon(model[st.Doc], got)), info
		}
		info.Classes = append(info.Classes, "entry:"+st.Entry)
	}
	// phase 3: independence from earlier calls by renaming invariance. The document has now been
	// distilled several times with its own URL; distilling it with a sibling URL must give the same
	// result as distilling a copy whose tokens are renamed (same lengths, different strings) with that
	// sibling URL: state remembered per URL/reference string from the earlier calls would only hit
	// the original.
	for i, d := range ex.Docs {
		if d.Opts.URL == "" || d.Opts.Nil {
			continue
		}
		sib := siblingURL(d.Opts.URL)
		if sib == "" {
			continue
		}
		o := d.Opts
		o.URL = sib
		_, a := applyHTML(d.HTML, o)
		_, b := applyHTML(renameTokens(d.HTML), o)
		if a.Panicked || b.Panicked || a.Res == nil || b.Res == nil {
			continue
		}
		ca, cb := canonical(a.Res), unrenameTokens(canonical(b.Res))
		info.Classes = append(info.Classes, "renaming-invariance-checked")
		if ca != cb {
			return violationf("C11 depends-on-earlier-calls fields="+diffFields(cb, ca),
				"document %d distilled with sibling URL %s after earlier calls with %s differs from a token-renamed copy distilled with the same URL (fresh strings):\n%s", i, sib, d.Opts.URL, diffCanon(cb, ca)), info
		}
	}
	for _, d := range ex.Docs {
		info.Classes = append(info.Classes, "doc:"+d.Kind)
	}
	alternating := false
	for i := 1; i < len(ex.History); i++ {
		if ex.History[i].Doc != ex.History[i-1].Doc {
			alternating = true
		}
	}
	pagFound := false
	for _, m := range model {
		if strings.Contains(m, `"NextPage":"h`) || strings.Contains(m, `"PrevPage":"h`) {
			pagFound = true
		}
	}
	if pagFound {
		info.Classes = append(info.Classes, "pagination-found")
	}
	info.Classes = dedup(info.Classes)
	info.NonTrivial = (hasPager && hasURL && pagFound) || (alternating && len(ex.Docs) >= 2)
	return nil, info
}

func TestC11(t *testing.T) { runProp(t, genC11, checkC11) }

var rxTokRename = regexp.MustCompile(`([a-z]{1,3}[0-9]+)q\b`)
var rxTokUnrename = regexp.MustCompile(`([a-z]{1,3}[0-9]+)z\b`)

func renameTokens(s string) string   { return rxTokRename.ReplaceAllString(s, "${1}z") }
func unrenameTokens(s string) string { return rxTokUnrename.ReplaceAllString(s, "${1}q") }

// siblingURL returns a URL on the same host in another directory.
func siblingURL(u string) string {
	pu, err := nurl.Parse(u)
	if err != nil || pu.Host == "" {
		return ""
	}
	dir, file := "/", ""
	if i := strings.LastIndex(pu.Path, "/"); i >= 0 {
		dir, file = pu.Path[:i+1], pu.Path[i+1:]
	}
	if len(u)%2 == 0 || file == "" {
		pu.Path = dir + "zzsib/" + file // another directory
	} else {
		pu.Path = dir + "zz" + file // the same directory, another file name
	}
	pu.RawPath = ""
	return pu.String()
}
