package props

import (
	"fmt"
	"strings"
	"testing"

	"golang.org/x/net/html"
	"pgregory.net/rapid"
)

// C07 — retained text keeps its list/quote/pre nesting; data tables are kept whole.

func init() { register("C07", checkC07) }

func genC07(t *rapid.T) *Case {
	p := articleProfile()
	p.MaxDepth = 3
	p.Title = false
	p.TablesInLists = 8
	p.EmptyCells = true
	p.InlineNestables = true
	p.RowGaps = true
	nest := []wc{{"list", 30}, {"quote", 12}, {"pre", 8}, {"dtable", 8}, {"strayli", 2}, {"ulinline", 2}, {"ctltail", 4}}
	p.Top = append(append([]wc{}, p.Top...), nest...)
	p.Core = append(append([]wc{}, p.Core...), nest...)
	p.Nested = append(append([]wc{}, nestedText...), wc{"list", 12}, wc{"quote", 6}, wc{"pre", 4}, wc{"dtable", 4})
	// attributes that change nothing: presentational roles on lists, aria-hidden="false"
	p.Attr = func(g *G, tag string) string {
		switch tag {
		case "ul", "ol":
			if g.intn(0, 6, "listrole") == 0 {
				return g.pick("listrolev", ` role="presentation"`, ` role="none"`, ` role="list"`)
			}
		case "li", "tr", "td", "th", "blockquote", "pre":
			switch g.intn(0, 15, "ariafalse") {
			case 0:
				return ` aria-hidden="false"`
			case 1:
				// properties whose names merely end like the ones that hide
				if tag == "tr" || tag == "td" || tag == "th" {
					return g.pick("benignstyle", ` style="backface-visibility: hidden"`, ` style="-webkit-backface-visibility:hidden;"`, ` style="content-visibility: auto; x-display: none"`)
				}
			}
		}
		return ""
	}
	g := newG(t, p)
	c := &Case{Property: "C07", HTML: g.page()}
	c.Opts = genOpts(t, 30)
	return c
}

func countElems(n *html.Node, names ...string) int {
	return len(findAll(n, func(x *html.Node) bool { return isElem(x, names...) }))
}

func checkC07(c *Case) (*Violation, caseInfo) {
	var info caseInfo
	doc, out := applyHTML(c.HTML, c.Opts)
	if out.Panicked || out.Err != nil || out.Res == nil {
		info.Skip = "apply-failed"
		return nil, info
	}
	src := walkSource(doc)
	if len(src.Dup) > 0 {
		info.Skip = "duplicate-source-token"
		return nil, info
	}
	var viol *Violation
	outToks := walkOutput(out.Res.Node)
	deep := 0
	keptSet := map[string]bool{}
	for _, ot := range outToks {
		if ot.InPlaceholder {
			continue
		}
		keptSet[ot.Tok] = true
		st, ok := src.ByTok[ot.Tok]
		if !ok {
			continue // C02's business
		}
		if st.Tweet {
			continue
		}
		if strings.Count(st.Chain, ">") >= 2 {
			deep++
		}
		if st.Figure != nil {
			continue // captions are re-created from their text; they hold no nestable elements here
		}
		if ot.Chain != st.Chain && viol == nil {
			where := "text"
			if ot.InTable {
				where = "table"
			}
			viol = violationf("C07 chain-changed in="+where+" src="+chainShape(st.Chain)+" out="+chainShape(ot.Chain),
				"token %q is inside [%s] in the source but inside [%s] in the distilled HTML", ot.Tok, st.Chain, ot.Chain)
		}
	}
	// data tables: same number of rows and cells
	bigTable := false
	for _, tbl := range findAll(doc, func(n *html.Node) bool { return isElem(n, "table") }) {
		if !isGenDataTable(tbl) || hasAncestor(tbl, func(a *html.Node) bool { return isGenDataTable(a) || notRendered(a) || nonReading(a) }) {
			continue
		}
		th := findAll(tbl, func(n *html.Node) bool { return isElem(n, "th") })[0]
		ids := textTokens(render(th))
		if len(ids) == 0 || !keptSet[ids[0]] {
			continue
		}
		var outTbl *html.Node
		for _, cand := range findAll(out.Res.Node, func(n *html.Node) bool { return isElem(n, "table") }) {
			if strings.Contains(render(cand), ids[0]) && !hasAncestor(cand, func(a *html.Node) bool { return isElem(a, "table") }) {
				outTbl = cand
			}
		}
		if outTbl == nil {
			continue
		}
		sr, sc := countElems(tbl, "tr"), countElems(tbl, "td", "th")
		or, oc := countElems(outTbl, "tr"), countElems(outTbl, "td", "th")
		info.Classes = append(info.Classes, "retained-data-table")
		if sr >= 3 {
			bigTable = true
		}
		if (sr != or || sc != oc) && viol == nil {
			viol = violationf("C07 table-shape-changed", "retained data table %q has %d rows / %d cells in the source but %d rows / %d cells in the distilled HTML", ids[0], sr, sc, or, oc)
		}
	}
	// partially retained lists
	partial := false
	for _, l := range findAll(doc, func(n *html.Node) bool { return isElem(n, "ul", "ol") }) {
		if hasAncestor(l, func(a *html.Node) bool { return notRendered(a) || nonReading(a) || isElem(a, "table") }) {
			continue
		}
		toks := textTokens(render(l))
		k := 0
		for _, tk := range toks {
			if keptSet[tk] {
				k++
			}
		}
		if k > 0 && k < len(toks) {
			partial = true
			break
		}
	}
	if deep > 0 {
		info.Classes = append(info.Classes, "retained-depth>=3")
	}
	if partial {
		info.Classes = append(info.Classes, "partially-retained-list")
	}
	info.Classes = dedup(info.Classes)
	info.NonTrivial = (deep > 0 && partial) || bigTable
	info.Note = fmt.Sprintf("deep=%d partial=%v bigTable=%v", deep, partial, bigTable)
	return viol, info
}

func chainShape(ch string) string {
	if ch == "" {
		return "none"
	}
	return ch
}

func TestC07(t *testing.T) { runProp(t, genC07, checkC07) }
