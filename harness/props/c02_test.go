package props

import (
	"fmt"
	"strings"
	"testing"

	"pgregory.net/rapid"
)

// C02 — distilled text is an ordered excerpt of the source.

func init() { register("C02", checkC02) }

func genC02(t *rapid.T) *Case {
	p := articleProfile()
	if rapid.Bool().Draw(t, "carriers") {
		p = carrierProfile()
	}
	g := newG(t, p)
	c := &Case{Property: "C02", HTML: g.page()}
	c.Opts = genOpts(t, 50)
	return c
}

func checkC02(c *Case) (*Violation, caseInfo) {
	var info caseInfo
	doc, out := applyHTML(c.HTML, c.Opts)
	if out.Panicked || out.Err != nil || out.Res == nil {
		info.Skip = "apply-failed"
		return nil, info
	}
	src := walkSource(doc)
	if len(src.Dup) > 0 {
		info.Skip = "duplicate-source-token"
		return nil, info
	}
	res := out.Res

	type view struct {
		name string
		toks []OutTok
	}
	var textView []OutTok
	for _, tk := range textTokens(res.Text) {
		textView = append(textView, OutTok{Tok: tk})
	}
	views := []view{{"text", textView}, {"html", walkOutput(res.Node)}}
	var viol *Violation
	for _, vw := range views {
		seen := map[string]bool{}
		last := -1
		lastTok := ""
		for _, ot := range vw.toks {
			st, ok := src.ByTok[ot.Tok]
			if !ok {
				viol = violationf("C02 fabricated-token view="+vw.name, "token %q in %s view does not occur in the source", ot.Tok, vw.name)
				break
			}
			if st.Hidden && !ot.InPlaceholder {
				viol = violationf("C02 invisible-token view="+vw.name, "token %q in %s view occurs only in non-rendered source content", ot.Tok, vw.name)
				break
			}
			if seen[ot.Tok] {
				viol = violationf("C02 duplicate-token view="+vw.name, "token %q emitted twice in %s view", ot.Tok, vw.name)
				break
			}
			seen[ot.Tok] = true
			if st.Idx <= last {
				viol = violationf("C02 reordered view="+vw.name, "token %q (source index %d) emitted after %q (source index %d) in %s view", ot.Tok, st.Idx, lastTok, last, vw.name)
				break
			}
			last, lastTok = st.Idx, ot.Tok
		}
		if viol != nil {
			break
		}
	}

	// whole-word form: a word of either view must be exactly one source token (a word fused
	// from two tokens, or a fragment of one, would be invented text).
	if viol == nil {
		wordsText := strings.Fields(punctToSpace(res.Text))
		wordsHTML := visibleWordsOfOutput(res.Node)
		for i, ws := range [][]string{wordsText, wordsHTML} {
			for _, w := range ws {
				if inner := rxToken.FindString(w); inner != w {
					// raw markup text of noscript & co. inside a retained data table or figure is
					// class-B content, which C04 explicitly allows there
					if stb, ok := src.ByTok[inner]; ok && stb.ClassB {
						continue
					}
					viol = violationf("C02 fabricated-word view="+[]string{"text", "html"}[i], "word %q in the %s view is not a word of the source", w, []string{"text", "html"}[i])
					break
				}
			}
			if viol != nil {
				break
			}
		}
	}

	// classification
	nOut := len(textView)
	kept := tokenSet(textTokens(res.Text))
	keptP, droppedP := 0, 0
	seenP := map[interface{}]bool{}
	for _, stk := range src.Toks {
		if stk.P == nil || stk.Hidden || stk.ClassB || seenP[stk.P] {
			continue
		}
		seenP[stk.P] = true
		if kept[stk.Tok] {
			keptP++
		} else {
			droppedP++
		}
	}
	info.NonTrivial = nOut >= 20 && keptP >= 3 && droppedP >= 1
	info.Classes = append(info.Classes, bucket("out_tokens", nOut))
	for _, ot := range views[1].toks {
		if ot.InTable {
			info.Classes = append(info.Classes, "kept:table-text")
			break
		}
	}
	for _, ot := range views[1].toks {
		if ot.InFigure {
			info.Classes = append(info.Classes, "kept:caption")
			break
		}
	}
	for _, ot := range views[1].toks {
		if ot.Chain != "" {
			info.Classes = append(info.Classes, "kept:nested")
			break
		}
	}
	for _, ot := range views[1].toks {
		if ot.InPlaceholder {
			info.Classes = append(info.Classes, "kept:tweet")
			break
		}
	}
	if c.Opts.URL != "" {
		info.Classes = append(info.Classes, "with-url")
	}
	return viol, info
}

func bucket(name string, n int) string {
	switch {
	case n == 0:
		return name + ":0"
	case n < 20:
		return name + ":1-19"
	case n < 100:
		return name + ":20-99"
	case n < 500:
		return name + ":100-499"
	default:
		return fmt.Sprintf("%s:500+", name)
	}
}

func TestC02(t *testing.T) { runProp(t, genC02, checkC02) }
