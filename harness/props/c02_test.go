package props

import (
	"bytes"
	"fmt"
	"strings"
	"testing"

	distiller "github.com/markusmobius/go-domdistiller"
	"pgregory.net/rapid"
)

func isASCII(s string) bool {
	for i := 0; i < len(s); i++ {
		if s[i] >= 0x80 {
			return false
		}
	}
	return true
}

// C02 — distilled text is an ordered excerpt of the source.

func init() { register("C02", checkC02) }

func genC02(t *rapid.T) *Case {
	p := articleProfile()
	if rapid.Bool().Draw(t, "carriers") {
		p = carrierProfile()
	}
	g := newG(t, p)
	c := &Case{Property: "C02", HTML: g.page()}
	c.Opts = genOpts(t, 50)
	if rapid.IntRange(0, 7).Draw(t, "reader") == 0 {
		// byte-stream entry point: a UTF-8 page (declared as such) with a single non-ASCII word
		c.Kind = "reader"
		special := rapid.SampledFrom([]string{"café", "Zürich", "don’t", "naïve", "señor", "œuvre"}).Draw(t, "special")
		// (English prose: that is what makes the charset guesser of the reader path prefer a legacy code page)
		prose := "The quick brown fox jumps over the lazy dog while the committee considered whether the proposal should be adopted by the general assembly later this year and the members agreed that further discussion would be necessary before any decision could be made about the matter at hand "
		para := "<p>" + prose + "We went to the " + special + " yesterday " + prose + g.words(3) + "</p>\n"
		c.HTML = strings.Replace(c.HTML, "<body>\n", "<body>\n"+para, 1)
	}
	if c.Kind == "" && rapid.IntRange(0, 11).Draw(t, "latin1") == 0 {
		// byte-stream entry point: a page in ISO-8859-1 (declared as such) with French prose, so that
		// the encoding is beyond reasonable doubt; a long run of ASCII may come first
		c.Kind = "reader-latin1"
		prose := "Le comité a décidé que la proposition serait adoptée par l'assemblée générale à la fin de l'année, après que les députés eurent étudié les conséquences de cette décision très controversée pour les régions où le chômage était déjà élevé. "
		var head string
		if rapid.Bool().Draw(t, "asciihead") {
			head = "<style>" + strings.Repeat(".module-header .nav-item > a:hover { color: #336699; margin: 0 auto; padding: 4px 8px }\n", rapid.IntRange(50, 120).Draw(t, "cssrules")) + "</style>"
		}
		c.HTML = strings.Replace(c.HTML, `<meta charset="utf-8">`, `<meta charset="iso-8859-1">`+head, 1)
		c.HTML = strings.Replace(c.HTML, "<body>\n", "<body>\n<p>"+strings.Repeat(prose, rapid.IntRange(2, 5).Draw(t, "proserep"))+g.words(3)+"</p>\n", 1)
	}
	return c
}

// latin1Bytes encodes a string whose runes are all below U+0100 as ISO-8859-1.
func latin1Bytes(s string) []byte {
	b := make([]byte, 0, len(s))
	for _, r := range s {
		if r < 256 {
			b = append(b, byte(r))
		} else {
			b = append(b, '?')
		}
	}
	return b
}

func checkC02(c *Case) (*Violation, caseInfo) {
	var info caseInfo
	doc, out := applyHTML(c.HTML, c.Opts)
	if c.Kind == "reader" {
		opts := c.Opts.Build()
		out = guarded(0, func() (*distiller.Result, error) { return distiller.ApplyForReader(strings.NewReader(c.HTML), opts) })
		info.Classes = append(info.Classes, "entry:ApplyForReader")
	}
	if c.Kind == "reader-latin1" {
		opts := c.Opts.Build()
		out = guarded(0, func() (*distiller.Result, error) {
			return distiller.ApplyForReader(bytes.NewReader(latin1Bytes(c.HTML)), opts)
		})
		info.Classes = append(info.Classes, "entry:ApplyForReader-latin1")
	}
	if out.Panicked || out.Err != nil || out.Res == nil {
		info.Skip = "apply-failed"
		return nil, info
	}
	src := walkSource(doc)
	if len(src.Dup) > 0 {
		info.Skip = "duplicate-source-token"
		return nil, info
	}
	res := out.Res
	if c.Kind == "reader" || c.Kind == "reader-latin1" {
		// every word with non-ASCII characters must be a word of the source (as decoded from its
		// declared encoding)
		srcWords := map[string]bool{}
		for _, w := range strings.Fields(punctToSpace(innerTextOf(doc))) {
			srcWords[w] = true
		}
		for _, w := range strings.Fields(punctToSpace(res.Text)) {
			if rxToken.FindString(w) != w && !srcWords[w] {
				if c.Kind == "reader-latin1" {
					return violationf("C02 reader-misdecodes-latin1", "ApplyForReader emits the word %q, which is not a word of the ISO-8859-1 source (the page declares that charset and holds French prose)", w), info
				}
				return violationf("C02 reader-misdecodes-utf8", "ApplyForReader emits the word %q, which is not a word of the UTF-8 source (the page declares charset=utf-8 and holds one non-ASCII word)", w), info
			}
		}
	}

	type view struct {
		name string
		toks []OutTok
	}
	var textView []OutTok
	for _, tk := range textTokens(res.Text) {
		textView = append(textView, OutTok{Tok: tk})
	}
	views := []view{{"text", textView}, {"html", walkOutput(res.Node)}}
	var viol *Violation
	for _, vw := range views {
		seen := map[string]bool{}
		last := -1
		lastTok := ""
		for _, ot := range vw.toks {
			st, ok := src.ByTok[ot.Tok]
			if !ok {
				viol = violationf("C02 fabricated-token view="+vw.name, "token %q in %s view does not occur in the source", ot.Tok, vw.name)
				break
			}
			if st.Hidden && !ot.InPlaceholder {
				viol = violationf("C02 invisible-token view="+vw.name, "token %q in %s view occurs only in non-rendered source content", ot.Tok, vw.name)
				break
			}
			if seen[ot.Tok] {
				viol = violationf("C02 duplicate-token view="+vw.name, "token %q emitted twice in %s view", ot.Tok, vw.name)
				break
			}
			seen[ot.Tok] = true
			if st.Idx <= last {
				viol = violationf("C02 reordered view="+vw.name, "token %q (source index %d) emitted after %q (source index %d) in %s view", ot.Tok, st.Idx, lastTok, last, vw.name)
				break
			}
			last, lastTok = st.Idx, ot.Tok
		}
		if viol != nil {
			break
		}
	}

	// whole-word form: a word of either view must be exactly one source token (a word fused
	// from two tokens, or a fragment of one, would be invented text).
	if viol == nil {
		sourceWords := map[string]bool{}
		for _, w := range strings.Fields(punctToSpace(innerTextOf(doc))) {
			sourceWords[w] = true
		}
		wordsText := strings.Fields(punctToSpace(res.Text))
		wordsHTML := visibleWordsOfOutput(res.Node)
		for i, ws := range [][]string{wordsText, wordsHTML} {
			for _, w := range ws {
				if (c.Kind == "reader" || c.Kind == "reader-latin1") && rxToken.FindString(w) != w {
					continue // words of the prose paragraph: checked above against the source's words
				}
				if rxToken.FindString(w) == "" && sourceWords[w] {
					continue // a word without any token (a symbol used as link text): it is a word of the source
				}
				if inner := rxToken.FindString(w); inner != w {
					// raw markup text of noscript & co. inside a retained data table or figure is
					// class-B content, which C04 explicitly allows there
					if stb, ok := src.ByTok[inner]; ok && stb.ClassB {
						continue
					}
					viol = violationf("C02 fabricated-word view="+[]string{"text", "html"}[i], "word %q in the %s view is not a word of the source", w, []string{"text", "html"}[i])
					break
				}
			}
			if viol != nil {
				break
			}
		}
	}

	// classification
	nOut := len(textView)
	kept := tokenSet(textTokens(res.Text))
	keptP, droppedP := 0, 0
	seenP := map[interface{}]bool{}
	for _, stk := range src.Toks {
		if stk.P == nil || stk.Hidden || stk.ClassB || seenP[stk.P] {
			continue
		}
		seenP[stk.P] = true
		if kept[stk.Tok] {
			keptP++
		} else {
			droppedP++
		}
	}
	info.NonTrivial = nOut >= 20 && keptP >= 3 && droppedP >= 1
	info.Classes = append(info.Classes, bucket("out_tokens", nOut))
	for _, ot := range views[1].toks {
		if ot.InTable {
			info.Classes = append(info.Classes, "kept:table-text")
			break
		}
	}
	for _, ot := range views[1].toks {
		if ot.InFigure {
			info.Classes = append(info.Classes, "kept:caption")
			break
		}
	}
	for _, ot := range views[1].toks {
		if ot.Chain != "" {
			info.Classes = append(info.Classes, "kept:nested")
			break
		}
	}
	for _, ot := range views[1].toks {
		if ot.InPlaceholder {
			info.Classes = append(info.Classes, "kept:tweet")
			break
		}
	}
	if c.Opts.URL != "" {
		info.Classes = append(info.Classes, "with-url")
	}
	return viol, info
}

func bucket(name string, n int) string {
	switch {
	case n == 0:
		return name + ":0"
	case n < 20:
		return name + ":1-19"
	case n < 100:
		return name + ":20-99"
	case n < 500:
		return name + ":100-499"
	default:
		return fmt.Sprintf("%s:500+", name)
	}
}

func TestC02(t *testing.T) { runProp(t, genC02, checkC02) }
