package props

import (
	"regexp"
	"strings"

	"golang.org/x/net/html"
)

// All generated words are tokens of this shape; every token of a page is unique.
var rxToken = regexp.MustCompile(`[a-z]{1,3}[0-9]+q`)

func textTokens(s string) []string { return rxToken.FindAllString(s, -1) }

func attr(n *html.Node, key string) (string, bool) {
	for _, a := range n.Attr {
		if a.Key == key {
			return a.Val, true
		}
	}
	return "", false
}

func attrVal(n *html.Node, key string) string {
	v, _ := attr(n, key)
	return v
}

func isElem(n *html.Node, names ...string) bool {
	if n == nil || n.Type != html.ElementNode {
		return false
	}
	for _, nm := range names {
		if n.Data == nm {
			return true
		}
	}
	return false
}

// notRendered is the harness's own reading of property C04's first sentence: script, style,
// head, or hidden by the hidden attribute, inline display:none, visibility:hidden/collapse or
// aria-hidden=true. It is deliberately independent of domutil.IsProbablyVisible.
func notRendered(n *html.Node) bool {
	if n.Type != html.ElementNode {
		return false
	}
	switch n.Data {
	case "script", "style", "head":
		return true
	}
	if _, ok := attr(n, "hidden"); ok {
		return true
	}
	if attrVal(n, "aria-hidden") == "true" && !strings.Contains(attrVal(n, "class"), "fallback-image") {
		return true
	}
	style := strings.ToLower(attrVal(n, "style"))
	style = strings.Join(strings.Fields(style), "")
	if strings.Contains(style, "display:none") {
		return true
	}
	if strings.Contains(style, "visibility:hidden") || strings.Contains(style, "visibility:collapse") {
		return true
	}
	return false
}

// nonReading is C04's second sentence (class B).
func nonReading(n *html.Node) bool {
	return isElem(n, "form", "input", "button", "select", "option", "textarea", "noscript", "svg",
		"object", "embed", "applet", "iframe")
}

func isNestable(n *html.Node) bool {
	return isElem(n, "ul", "ol", "li", "blockquote", "pre")
}

// SrcTok describes one word token of the source document.
type SrcTok struct {
	Tok     string
	Idx     int
	Hidden  bool       // inside a not-rendered subtree or a comment (class A)
	ClassB  bool       // inside a non-reading element (class B)
	Chain   string     // ul/ol/li/blockquote/pre ancestors, innermost first
	P       *html.Node // nearest <p> ancestor
	Table   *html.Node // outermost <table> ancestor
	DataTbl *html.Node // outermost ancestor table that is a data table by construction (see isGenDataTable)
	Figure  *html.Node // nearest <figure> ancestor
	Tweet   bool       // inside blockquote.twitter-tweet
	Text    *html.Node
	InTitle bool
}

type SrcInfo struct {
	Toks  []*SrcTok
	ByTok map[string]*SrcTok
	Dup   []string
}

func walkSource(doc *html.Node) *SrcInfo {
	si := &SrcInfo{ByTok: map[string]*SrcTok{}}
	type ctx struct {
		hidden, classB, tweet, title bool
		chain                        []string
		p, table, figure, dtable     *html.Node
	}
	add := func(s string, c ctx, node *html.Node) {
		for _, tk := range textTokens(s) {
			ch := make([]string, len(c.chain))
			for i := range c.chain {
				ch[i] = c.chain[len(c.chain)-1-i]
			}
			t := &SrcTok{Tok: tk, Idx: len(si.Toks), Hidden: c.hidden, ClassB: c.classB,
				Chain: strings.Join(ch, ">"), P: c.p, Table: c.table, DataTbl: c.dtable, Figure: c.figure, Tweet: c.tweet, Text: node, InTitle: c.title}
			si.Toks = append(si.Toks, t)
			if _, dup := si.ByTok[tk]; dup {
				si.Dup = append(si.Dup, tk)
			}
			si.ByTok[tk] = t
		}
	}
	var rec func(n *html.Node, c ctx)
	rec = func(n *html.Node, c ctx) {
		switch n.Type {
		case html.TextNode:
			add(n.Data, c, n)
			return
		case html.CommentNode:
			c.hidden = true
			add(n.Data, c, n)
			return
		case html.ElementNode:
			if notRendered(n) {
				c.hidden = true
			}
			if nonReading(n) {
				c.classB = true
			}
			if isNestable(n) {
				c.chain = append(append([]string{}, c.chain...), n.Data)
			}
			switch n.Data {
			case "p":
				c.p = n
			case "table":
				if c.table == nil {
					c.table = n
				}
				if c.dtable == nil && isGenDataTable(n) {
					c.dtable = n
				}
			case "figure":
				c.figure = n
			case "title":
				c.title = true
			case "blockquote":
				if strings.Contains(attrVal(n, "class"), "twitter-tweet") {
					c.tweet = true
				}
			}
			// attribute values of hidden elements are searched for separately (string search)
		}
		for ch := n.FirstChild; ch != nil; ch = ch.NextSibling {
			rec(ch, c)
		}
	}
	rec(doc, ctx{})
	return si
}

// OutTok describes one word token found in a text node of the distilled HTML.
type OutTok struct {
	Tok           string
	InPlaceholder bool
	Chain         string
	InTable       bool
	InFigure      bool
	Hidden        bool // inside an element carrying the hidden attribute in the output
}

func isPlaceholder(n *html.Node) bool {
	return isElem(n, "div") && attrVal(n, "class") == "embed-placeholder"
}

func walkOutput(root *html.Node) []OutTok {
	var out []OutTok
	var rec func(n *html.Node, ph, tbl, fig, hid bool, chain []string)
	rec = func(n *html.Node, ph, tbl, fig, hid bool, chain []string) {
		switch n.Type {
		case html.TextNode:
			for _, tk := range textTokens(n.Data) {
				ch := make([]string, len(chain))
				for i := range chain {
					ch[i] = chain[len(chain)-1-i]
				}
				out = append(out, OutTok{Tok: tk, InPlaceholder: ph, Chain: strings.Join(ch, ">"), InTable: tbl, InFigure: fig, Hidden: hid})
			}
			return
		case html.ElementNode:
			if isPlaceholder(n) {
				ph = true
			}
			if isNestable(n) {
				chain = append(append([]string{}, chain...), n.Data)
			}
			if n.Data == "table" {
				tbl = true
			}
			if n.Data == "figure" {
				fig = true
			}
			if _, ok := attr(n, "hidden"); ok {
				hid = true
			}
		}
		for ch := n.FirstChild; ch != nil; ch = ch.NextSibling {
			rec(ch, ph, tbl, fig, hid, chain)
		}
	}
	rec(root, false, false, false, false, nil)
	return out
}

func render(n *html.Node) string {
	var b strings.Builder
	html.Render(&b, n)
	return b.String()
}

// renderWithoutPlaceholders serialises the output tree with embed placeholders removed.
func renderWithoutPlaceholders(root *html.Node) string {
	var b strings.Builder
	var rec func(n *html.Node)
	rec = func(n *html.Node) {
		if isPlaceholder(n) {
			return
		}
		if n.FirstChild == nil || n.Type != html.ElementNode {
			html.Render(&b, n)
			return
		}
		b.WriteString("<" + n.Data)
		for _, a := range n.Attr {
			b.WriteString(" " + a.Key + `="` + html.EscapeString(a.Val) + `"`)
		}
		b.WriteString(">")
		for c := n.FirstChild; c != nil; c = c.NextSibling {
			rec(c)
		}
		b.WriteString("</" + n.Data + ">")
	}
	rec(root)
	return b.String()
}

func findAll(n *html.Node, pred func(*html.Node) bool) []*html.Node {
	var out []*html.Node
	var rec func(*html.Node)
	rec = func(x *html.Node) {
		if pred(x) {
			out = append(out, x)
		}
		for c := x.FirstChild; c != nil; c = c.NextSibling {
			rec(c)
		}
	}
	rec(n)
	return out
}

func hasAncestor(n *html.Node, pred func(*html.Node) bool) bool {
	for p := n.Parent; p != nil; p = p.Parent {
		if pred(p) {
			return true
		}
	}
	return false
}

func tokenSet(toks []string) map[string]bool {
	m := make(map[string]bool, len(toks))
	for _, t := range toks {
		m[t] = true
	}
	return m
}

// isGenDataTable recognises the data tables the generators emit: a header row of <th> and no
// nested table (the documented cascade classifies those as data; a table that contains another
// table is layout and is walked like a container).
func isGenDataTable(t *html.Node) bool {
	if !isElem(t, "table") {
		return false
	}
	if len(findAll(t, func(n *html.Node) bool { return n != t && isElem(n, "table") })) > 0 {
		return false
	}
	return len(findAll(t, func(n *html.Node) bool { return isElem(n, "th") })) > 0
}
