package props

import (
	"strings"
	"testing"

	"golang.org/x/net/html"
	"pgregory.net/rapid"
)

// C04 — non-rendered (class A) and non-reading (class B) content never leaks.

func init() { register("C04", checkC04) }

func carrierProfile() *Profile {
	p := articleProfile()
	p.Carriers = 35
	p.Inline = append(append([]wc{}, defaultInline...), wc{"hid", 5}, wc{"cbinl", 4}, wc{"script", 1}, wc{"comment", 1})
	p.Nested = append(append([]wc{}, nestedText...), wc{"hidden", 8}, wc{"script", 3}, wc{"style", 2}, wc{"comment", 3}, wc{"classb", 8},
		wc{"dtable", 6}, wc{"figure", 6}, wc{"tweet", 2})
	p.Core = append(append([]wc{}, p.Core...), wc{"dtable", 8}, wc{"figure", 8}, wc{"hidden", 4}, wc{"classb", 4}, wc{"tweet", 2})
	return p
}

func genC04(t *rapid.T) *Case {
	g := newG(t, carrierProfile())
	c := &Case{Property: "C04", HTML: g.page()}
	c.Opts = genOpts(t, 40)
	return c
}

// isDataTableByConstruction: generated data tables carry a <th>; generated layout tables never do.
func hasTH(table *html.Node) bool {
	return len(findAll(table, func(n *html.Node) bool { return isElem(n, "th") })) > 0
}

func checkC04(c *Case) (*Violation, caseInfo) {
	var info caseInfo
	doc, out := applyHTML(c.HTML, c.Opts)
	if out.Panicked || out.Err != nil || out.Res == nil {
		info.Skip = "apply-failed"
		return nil, info
	}
	src := walkSource(doc)
	res := out.Res
	textToks := tokenSet(textTokens(res.Text))
	htmlNoPH := renderWithoutPlaceholders(res.Node)
	htmlToks := tokenSet(textTokens(htmlNoPH))

	var viol *Violation
	report := func(kind, where string, st *SrcTok, tok string) {
		if viol != nil {
			return
		}
		place := "top"
		carrier := ""
		if st != nil {
			switch {
			case st.DataTbl != nil:
				place = "data-table"
			case st.Table != nil:
				place = "layout-table"
			case st.Figure != nil:
				place = "figure"
			case st.Tweet:
				place = "tweet"
			case st.P != nil:
				place = "paragraph"
			case st.Chain != "":
				place = "list-or-quote"
			}
			carrier = carrierKind(st.Text)
		}
		viol = violationf("C04 "+kind+" leak in "+where+" place="+place+" carrier="+carrier,
			"token %q (%s, carrier %s, placed in %s) appears in %s", tok, kind, carrier, place, where)
	}

	// (1) DOM-derived classes
	retainedA, inlineA := false, false
	for _, st := range src.Toks {
		if st.InTitle {
			continue
		}
		inText := textToks[st.Tok]
		inHTML := htmlToks[st.Tok]
		if st.Hidden {
			if inText {
				report("class-A", "Text", st, st.Tok)
			}
			if inHTML {
				report("class-A", "HTML", st, st.Tok)
			}
			continue
		}
		if st.ClassB {
			exempt := st.DataTbl != nil || st.Figure != nil
			if exempt {
				continue
			}
			if inText {
				report("class-B", "Text", st, st.Tok)
			}
			if inHTML {
				report("class-B", "HTML", st, st.Tok)
			}
		}
	}
	// (2) generator convention: "ha" tokens only ever sit in class A positions (text, attribute
	// values, script bodies, comments), so none may occur anywhere in the serialised output.
	for tk := range htmlToks {
		if strings.HasPrefix(tk, "ha") {
			report("class-A", "HTML", src.ByTok[tk], tk)
		}
	}
	for tk := range textToks {
		if strings.HasPrefix(tk, "ha") {
			report("class-A", "Text", src.ByTok[tk], tk)
		}
	}

	// non-trivial: a class-A carrier inside a retained data table / retained figure caption, or
	// inline inside a retained paragraph.
	for _, st := range src.Toks {
		if !st.Hidden || st.InTitle {
			continue
		}
		if st.DataTbl != nil && anyTokRetained(src, textToks, func(o *SrcTok) bool { return o.DataTbl == st.DataTbl && !o.Hidden && !o.ClassB }) {
			retainedA = true
			info.Classes = append(info.Classes, "A-in-retained-data-table")
		}
		if st.Figure != nil && anyTokRetained(src, textToks, func(o *SrcTok) bool { return o.Figure == st.Figure && !o.Hidden && !o.ClassB }) {
			retainedA = true
			info.Classes = append(info.Classes, "A-in-retained-figure")
		}
		if st.P != nil && st.Table == nil && anyTokRetained(src, textToks, func(o *SrcTok) bool { return o.P == st.P && !o.Hidden && !o.ClassB }) {
			inlineA = true
			info.Classes = append(info.Classes, "A-inline-in-retained-paragraph")
		}
	}
	info.Classes = dedup(info.Classes)
	info.NonTrivial = retainedA || inlineA
	return viol, info
}

func anyTokRetained(src *SrcInfo, kept map[string]bool, pred func(*SrcTok) bool) bool {
	for _, o := range src.Toks {
		if pred(o) && kept[o.Tok] {
			return true
		}
	}
	return false
}

func dedup(xs []string) []string {
	seen := map[string]bool{}
	var out []string
	for _, x := range xs {
		if !seen[x] {
			seen[x] = true
			out = append(out, x)
		}
	}
	return out
}

// carrierKind names the nearest ancestor that makes a text node class A or class B.
func carrierKind(n *html.Node) string {
	if n == nil {
		return "?"
	}
	if n.Type == html.CommentNode {
		return "comment"
	}
	for p := n.Parent; p != nil; p = p.Parent {
		if notRendered(p) {
			if p.Data == "script" || p.Data == "style" || p.Data == "head" {
				return p.Data
			}
			return "hidden-element"
		}
		if nonReading(p) {
			return p.Data
		}
	}
	return "?"
}

func TestC04(t *testing.T) { runProp(t, genC04, checkC04) }
