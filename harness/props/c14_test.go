package props

import (
	"encoding/json"
	"fmt"
	"strconv"
	"strings"
	"testing"

	"github.com/markusmobius/go-domdistiller/data"
	"pgregory.net/rapid"
)

// C14 — metadata follows the documented precedence and honours opt-out.

func init() { register("C14", checkC14) }

type c14Extra struct {
	OG, Schema, IE string // single-source renderings of the same spec
	OptOut         bool   `json:"opt_out"`
	// what the OpenGraph block provides by construction
	OGQualified bool   `json:"og_qualified"`
	OGTitle     string `json:"og_title"`
	OGType      string `json:"og_type"`
	OGURL       string `json:"og_url"`
	OGDesc      string `json:"og_desc"`
	OGSite      string `json:"og_site"`
	OGImages    int    `json:"og_images"`
	OGMissing   string `json:"og_missing"` // which required property is absent ("" if none)
	// type-dependent properties of the OpenGraph block (they count for type article / profile only)
	OGSection   string   `json:"og_section"`
	OGPublished string   `json:"og_published"`
	OGModified  string   `json:"og_modified"`
	OGExpires   string   `json:"og_expires"`
	OGAuthors   []string `json:"og_authors"`
	OGFirst     string   `json:"og_first"`
	OGLast      string   `json:"og_last"`
	// schema.org
	SchemaArticles  int    `json:"schema_articles"`
	SchemaTitle     string `json:"schema_title"`      // headline/name of the first article that has one
	SchemaRelAuthor string `json:"schema_rel_author"` // text of the first rel=author element that has text
	SchemaArticleHasAuthor bool `json:"schema_article_has_author"` // some article item carries an author or creator property
	SchemaDatePin   string `json:"schema_date_pin"`   // text of the first article's <time itemprop=datePublished> that has no datetime attribute
	SchemaAuthorPin string `json:"schema_author_pin"` // name of the Person author of the first article when it follows an unsupported-type author item
	// IE
	IETitle     string `json:"ie_title"`
	IECopyright string `json:"ie_copyright"`
	IEDate      string `json:"ie_date"`
}

type piece struct {
	src  string // og | schema | ie
	html string
}

func (g *G) val(prefix string, k int) string {
	g.push(prefix)
	defer g.pop()
	return g.words2(k)
}

func genC14(t *rapid.T) *Case {
	g := newG(t, articleProfile())
	var ex c14Extra
	var head, body []piece
	htmlAttr, headAttr := "", ""

	// ---------------- OpenGraph ----------------
	if g.chance(75, "og") {
		pfx := "og"
		switch g.pick("ogprefix", "default", "html-prefix", "head-prefix", "xmlns", "custom", "default", "xmlns-custom") {
		case "xmlns-custom":
			pfx = "opengraph"
			htmlAttr = ` lang="en" xmlns:opengraph="http://ogp.me/ns#" class="no-js"`
		case "html-prefix":
			htmlAttr = ` prefix="og: http://ogp.me/ns# ` + g.pick("fbns", "", "fb: http://ogp.me/ns/fb# ", "fb: http://ogp.me/ns/fb# video: http://ogp.me/ns/video# ") + `article: http://ogp.me/ns/article# profile: http://ogp.me/ns/profile#"`
		case "head-prefix":
			headAttr = ` prefix="og: http://ogp.me/ns#"`
		case "xmlns":
			htmlAttr = ` lang="en" data-theme="dark" xmlns:og="http://ogp.me/ns#" xmlns:fb="http://ogp.me/ns/fb#" class="js"`
		case "custom":
			pfx = "foo"
			htmlAttr = ` prefix="foo: http://ogp.me/ns#"`
		}
		meta := func(prop, content string) piece {
			return piece{"og", `<meta property="` + prop + `" content="` + content + `">`}
		}
		missing := g.weighted("ogmissing", []wc{{"", 55}, {"title", 10}, {"type", 10}, {"url", 10}, {"image", 10}, {"empty-title", 5}})
		ex.OGMissing = missing
		typ := g.pick("ogtype", "article", "article", "Article", "profile", "website", "video.movie")
		var og []piece
		if missing != "type" {
			og = append(og, meta(pfx+":type", typ))
			ex.OGType = typ
		}
		if missing != "title" {
			v := g.val("ogt", g.intn(1, 5, "ogtw"))
			if missing == "empty-title" {
				v = ""
			}
			og = append(og, meta(pfx+":title", v))
			ex.OGTitle = v
		}
		if missing != "url" {
			ex.OGURL = "http://example.com/og/" + g.tokp("ogu")
			og = append(og, meta(pfx+":url", ex.OGURL))
		}
		if missing != "image" {
			n := g.intn(1, 2, "ogimgs")
			for i := 0; i < n; i++ {
				og = append(og, meta(pfx+":image", "http://example.com/og/"+g.tokp("ogi")+".png"))
				if g.chance(40, "ogimgstruct") {
					og = append(og, meta(pfx+":image:width", strconv.Itoa(g.intn(100, 900, "ogw"))), meta(pfx+":image:height", strconv.Itoa(g.intn(100, 900, "ogh"))),
						meta(pfx+":image:type", "image/png"))
				}
				if g.chance(20, "ogsecure") {
					og = append(og, meta(pfx+":image:secure_url", "https://example.com/og/"+g.tokp("ogs")+".png"))
				}
			}
			ex.OGImages = n
		} else if g.chance(50, "ogimgstructonly") {
			// structured image properties without a root image do not make an image
			og = append(og, meta(pfx+":image:width", "300"))
		}
		if g.chance(60, "ogdesc") {
			ex.OGDesc = g.val("ogd", g.intn(2, 8, "ogdw"))
			og = append(og, meta(pfx+":description", ex.OGDesc))
		}
		if g.chance(60, "ogsite") {
			ex.OGSite = g.val("ogs", g.intn(1, 3, "ogsw"))
			og = append(og, meta(pfx+":site_name", ex.OGSite))
		}
		if strings.EqualFold(typ, "profile") && g.chance(80, "ogprofile") {
			if g.chance(80, "ogfirst") {
				ex.OGFirst = g.val("ogf", 1)
				og = append(og, meta("profile:first_name", ex.OGFirst))
			}
			if g.chance(80, "oglast") {
				ex.OGLast = g.val("ogl", 1)
				og = append(og, meta("profile:last_name", ex.OGLast))
			}
		}
		if g.chance(70, "ogarticle") { // rendered for every type: they only count when the type is article
			if g.chance(60, "ogsec") {
				ex.OGSection = g.val("ogsec", 2)
				og = append(og, meta("article:section", ex.OGSection))
			}
			if g.chance(60, "ogpub") {
				ex.OGPublished = "2021-02-03T04:05:06Z"
				og = append(og, meta("article:published_time", ex.OGPublished))
			}
			if g.chance(40, "ogmod") {
				ex.OGModified = "2021-03-04T00:00:00Z"
				og = append(og, meta("article:modified_time", ex.OGModified))
			}
			if g.chance(20, "ogexp") {
				ex.OGExpires = "2031-01-01T00:00:00Z"
				og = append(og, meta("article:expiration_time", ex.OGExpires))
			}
			na := g.intn(0, 2, "ogauthors")
			for i := 0; i < na; i++ {
				a := "http://example.com/authors/" + g.tokp("oga")
				ex.OGAuthors = append(ex.OGAuthors, a)
				og = append(og, meta("article:author", a))
			}
		}
		ex.OGQualified = missing == ""
		// properties whose names merely start like a required one are other properties
		if g.chance(25, "ognear") {
			for _, near := range []string{":title:alt", ":title_color", ":url_mobile", ":urls", ":typeface", ":description_short", ":site_name:x"} {
				if g.chance(40, "ognearpick") {
					nm := meta(pfx+near, "near "+g.val("ogn", 2))
					pos := g.intn(0, len(og), "ognearpos")
					og = append(og[:pos], append([]piece{nm}, og[pos:]...)...)
				}
			}
		}
		// og:type stands anywhere among the other properties (the documents are "in any order"); the
		// rest keeps its relative order but is interleaved with the other sources
		if missing != "type" && len(og) > 1 && g.chance(60, "ogtypepos") {
			for i, pc := range og {
				if strings.Contains(pc.html, `property="`+pfx+`:type"`) {
					og = append(og[:i], og[i+1:]...)
					pos := g.intn(0, len(og), "ogtypeat")
					og = append(og[:pos], append([]piece{pc}, og[pos:]...)...)
					break
				}
			}
		}
		head = append(head, og...)
	}

	// ---------------- schema.org ----------------
	if g.chance(70, "schema") {
		n := g.intn(1, 3, "items")
		for i := 0; i < n; i++ {
			kind := g.weighted("itemk", []wc{{"article", 55}, {"image", 15}, {"person", 8}, {"org", 7}, {"unsupported", 15}})
			var b strings.Builder
			person := func(prop string) string {
				switch g.pick("personform", "name", "given+family", "family") {
				case "name":
					return `<span itemprop="` + prop + `" itemscope itemtype="http://schema.org/Person"><span itemprop="name">` + g.val("scp", 2) + `</span></span>`
				case "given+family":
					return `<span itemprop="` + prop + `" itemscope itemtype="http://schema.org/Person"><span itemprop="givenName">` + g.val("scg", 1) + `</span> <span itemprop="familyName">` + g.val("scf", 1) + `</span></span>`
				default:
					return `<span itemprop="` + prop + `" itemscope itemtype="http://schema.org/Person"><span itemprop="familyName">` + g.val("scf", 1) + `</span></span>`
				}
			}
			org := func(prop string) string {
				typ := g.pick("orgtype", "Organization", "Corporation", "NGO")
				inner := `<span itemprop="name">` + g.val("sco", 2) + `</span>`
				if g.chance(30, "legal") {
					inner = `<span itemprop="legalName">` + g.val("scl", 2) + `</span>`
				}
				return `<span itemprop="` + prop + `" itemscope itemtype="http://schema.org/` + typ + `">` + inner + `</span>`
			}
			strOrItem := func(prop string) string {
				switch g.pick("soi", "string", "person", "org") {
				case "string":
					return `<span itemprop="` + prop + `">` + g.val("scs", 2) + `</span>`
				case "person":
					return person(prop)
				default:
					return org(prop)
				}
			}
			imageObject := func(prop string) string {
				p := ""
				if prop != "" {
					p = ` itemprop="` + prop + `"`
				}
				ioType := "ImageObject"
				if prop != "" && g.intn(0, 11, "iotype") == 0 {
					// the property holds an item of another supported type (it is no image)
					ioType = g.pick("iotypev", "Person", "Organization", "Article")
				}
				s := `<div` + p + ` itemscope itemtype="http://schema.org/` + ioType + `">`
				if g.chance(70, "iocontent") {
					s += `<meta itemprop="contentUrl" content="http://example.com/sc/` + g.tokp("scc") + `.png">`
				} else {
					s += `<a itemprop="url" href="http://example.com/sc/` + g.tokp("scu") + `.png">img</a>`
				}
				if g.chance(50, "iocap") {
					s += `<span itemprop="caption">` + g.val("scap", 3) + `</span>`
				}
				if g.chance(40, "iorep") {
					s += `<meta itemprop="representativeOfPage" content="` + g.pick("rep", "true", "True", "false") + `">`
				}
				if g.chance(40, "iowh") {
					s += `<meta itemprop="width" content="` + strconv.Itoa(g.intn(10, 999, "iow")) + `"><meta itemprop="height" content="` + strconv.Itoa(g.intn(10, 999, "ioh")) + `">`
				}
				if g.chance(30, "iofmt") {
					s += `<meta itemprop="encodingFormat" content="image/png">`
				}
				return s + `</div>`
			}
			switch kind {
			case "article":
				typ := g.pick("arttype", "Article", "NewsArticle", "BlogPosting", "ScholarlyArticle", "TechArticle")
				b.WriteString(`<div itemscope itemtype="http://schema.org/` + typ + `">`)
				title := ""
				if g.chance(70, "headline") {
					title = g.val("sch", g.intn(1, 5, "schw"))
					b.WriteString(`<h2 itemprop="headline">` + title + `</h2>`)
				}
				if g.chance(40, "name") {
					nm := g.val("scn", g.intn(1, 4, "scnw"))
					b.WriteString(`<span itemprop="name">` + nm + `</span>`)
					if title == "" {
						title = nm
					}
				}
				if ex.SchemaTitle == "" {
					ex.SchemaTitle = title
				}
				ex.SchemaArticles++
				if g.chance(60, "scurl") {
					if g.chance(50, "scurlform") {
						b.WriteString(`<a itemprop="url" href="http://example.com/sc/` + g.tokp("scu") + `">permalink</a>`)
					} else {
						b.WriteString(`<meta itemprop="url" content="http://example.com/sc/` + g.tokp("scu") + `">`)
					}
				}
				if g.chance(50, "scdesc") {
					b.WriteString(`<meta itemprop="description" content="` + g.val("scd", 4) + `">`)
				}
				if g.chance(50, "scimg") {
					b.WriteString(`<img itemprop="image" src="http://example.com/sc/` + g.tokp("sci") + `.png">`)
				}
				if g.chance(50, "scpub") {
					b.WriteString(strOrItem("publisher"))
				}
				if g.chance(40, "scch") {
					b.WriteString(strOrItem("copyrightHolder"))
				}
				if g.chance(40, "sccy") {
					b.WriteString(`<meta itemprop="copyrightYear" content="20` + strconv.Itoa(g.intn(10, 30, "year")) + `">`)
				}
				if g.chance(50, "scdp") {
					if ex.SchemaArticles == 1 && g.chance(40, "scdptext") {
						// no datetime attribute: the element's text is the value
						ex.SchemaDatePin = g.val("scdt", 2)
						b.WriteString(`<time itemprop="datePublished">` + ex.SchemaDatePin + `</time>`)
					} else {
						b.WriteString(`<time itemprop="datePublished" datetime="2020-01-02">2 Jan</time>`)
					}
				}
				if g.chance(30, "scdm") {
					b.WriteString(`<meta itemprop="dateModified" content="2020-02-03">`)
				}
				if ex.SchemaArticles == 1 && g.chance(20, "scshadowauthor") {
					// the author first as an embedded item of a type the parser does not support (it
					// provides nothing), then as a Person: the Person is the author
					ex.SchemaAuthorPin = g.val("scp", 2)
					ex.SchemaArticleHasAuthor = true
					b.WriteString(`<span itemprop="author" itemscope itemtype="http://schema.org/` + g.pick("unsupptype", "NewsMediaOrganization", "Brand", "Thing") + `"><span itemprop="name">` + g.val("scw", 2) + `</span></span>`)
					b.WriteString(`<span itemprop="author" itemscope itemtype="http://schema.org/Person"><span itemprop="name">` + ex.SchemaAuthorPin + `</span></span>`)
				} else if g.chance(50, "scauthor") {
					b.WriteString(strOrItem("author"))
					ex.SchemaArticleHasAuthor = true
				}
				if g.chance(25, "sccreator") {
					b.WriteString(strOrItem("creator"))
					ex.SchemaArticleHasAuthor = true
				}
				if g.chance(40, "scsection") {
					b.WriteString(`<span itemprop="articleSection">` + g.val("scx", 2) + `</span>`)
				}
				if g.chance(35, "scmedia") {
					b.WriteString(imageObject(g.pick("mediaprop", "associatedMedia", "encoding")))
				}
				b.WriteString(`</div>`)
			case "image":
				b.WriteString(imageObject(""))
			case "person":
				b.WriteString(`<div itemscope itemtype="http://schema.org/Person"><span itemprop="name">` + g.val("scq", 2) + `</span></div>`)
			case "org":
				b.WriteString(`<div itemscope itemtype="http://schema.org/Organization"><span itemprop="name">` + g.val("scr", 2) + `</span><span itemprop="url">http://example.com/org</span></div>`)
			default:
				b.WriteString(`<div itemscope itemtype="http://schema.org/Recipe"><span itemprop="name">` + g.val("scz", 2) + `</span>` + person("author") +
					`<span itemprop="headline">` + g.val("scy", 2) + `</span></div>`)
			}
			body = append(body, piece{"schema", b.String()})
		}
		if g.chance(35, "relauthor") {
			if g.chance(50, "emptyrel") {
				// a rel=author element without text comes first (typical: <link rel="author" href="/humans.txt">)
				head = append(head, piece{"schema", `<link rel="author" href="/humans.txt">`})
			}
			ex.SchemaRelAuthor = g.val("screl", 2)
			body = append(body, piece{"schema", `<a rel="author" href="/who">` + ex.SchemaRelAuthor + `</a>`})
			if g.chance(30, "secondrel") {
				body = append(body, piece{"schema", `<a rel="author" href="/who2">` + g.val("screl", 2) + `</a>`})
			}
		}
	}

	// ---------------- IE Reading View ----------------
	if g.chance(70, "ie") {
		// a <meta> element may also stand in the body (a parser leaves it where it is once the body has begun)
		ieMeta := func(markup string) {
			if g.chance(25, "iemetabody") {
				body = append(body, piece{"ie", markup})
			} else {
				head = append(head, piece{"ie", markup})
			}
		}
		if g.chance(60, "ietitle") {
			ex.IETitle = g.val("iet", g.intn(1, 5, "ietw"))
			ieMeta(`<meta name="` + g.pick("ietname", "title", "Title") + `" content="` + ex.IETitle + `">`)
		}
		if g.chance(50, "iecopy") {
			ex.IECopyright = g.val("iec", 3)
			ieMeta(`<meta name="copyright" content="` + ex.IECopyright + `">`)
		}
		dateline := ""
		if g.chance(40, "iedateline") {
			dateline = g.val("iedl", 2)
			body = append(body, piece{"ie", `<span class="` + g.pick("dlcls", "dateline", "x dateline") + `">` + dateline + `</span>`})
		}
		if g.chance(40, "iedisplaydate") {
			dd := g.val("iedd", 2)
			ieMeta(`<meta name="displaydate" content="` + dd + `">`)
			if dateline == "" {
				ex.IEDate = dd
			}
		}
		if dateline != "" {
			ex.IEDate = dateline
		}
		if g.chance(50, "iebyline") {
			body = append(body, piece{"ie", `<span class="byline-name">` + g.val("ieb", 2) + `</span>`})
		}
		if g.chance(40, "iepub") {
			body = append(body, piece{"ie", `<div ` + g.pick("pubattr", "publisher", "source_organization") + `="` + g.val("iep", 2) + `">x</div>`})
		}
		ni := g.intn(0, 2, "ieimgs")
		for i := 0; i < ni; i++ {
			if g.chance(60, "iecap") {
				body = append(body, piece{"ie", `<figure><img src="http://example.com/ie/` + g.tokp("iei") + `.png" width="100" height="50"><figcaption>` + g.val("iecap", 3) + `</figcaption></figure>`})
			} else {
				body = append(body, piece{"ie", `<img src="http://example.com/ie/` + g.tokp("iei") + `.png" width="` + g.pick("iw", "600", "400", "399", "800") + `" height="` + g.pick("ih", "300", "200", "100", "700") + `">`})
			}
		}
		switch g.weighted("optout", []wc{{"absent", 60}, {"true", 25}, {"false", 15}}) {
		case "true":
			ex.OptOut = true
			ieMeta(`<meta name="` + g.pick("offname", "IE_RM_OFF", "ie_rm_off") + `" content="` + g.pick("offval", "true", "True", "TRUE") + `">`)
		case "false":
			ieMeta(`<meta name="IE_RM_OFF" content="false">`)
		}
	}

	// interleave the sources: a drawn merge that keeps each source's internal order
	merge := func(ps []piece) []piece {
		by := map[string][]piece{}
		var order []string
		for _, p := range ps {
			if _, ok := by[p.src]; !ok {
				order = append(order, p.src)
			}
			by[p.src] = append(by[p.src], p)
		}
		var out []piece
		for {
			var live []string
			for _, s := range order {
				if len(by[s]) > 0 {
					live = append(live, s)
				}
			}
			if len(live) == 0 {
				return out
			}
			s := live[g.intn(0, len(live)-1, "merge")]
			out = append(out, by[s][0])
			by[s] = by[s][1:]
		}
	}
	head, body = merge(head), merge(body)
	para1, para2 := g.longPara(30, 60), g.longPara(30, 60)
	baseTitle := g.val("bt", 3)
	renderPage := func(only string) string {
		var b strings.Builder
		b.WriteString("<!DOCTYPE html><html" + htmlAttr + "><head" + headAttr + "><title>" + baseTitle + "</title>")
		for _, p := range head {
			if only == "" || p.src == only {
				b.WriteString(p.html)
			}
		}
		b.WriteString("</head><body>\n" + para1)
		for _, p := range body {
			if only == "" || p.src == only {
				b.WriteString(p.html + "\n")
			}
		}
		b.WriteString(para2 + "</body></html>")
		return b.String()
	}
	ex.OG, ex.Schema, ex.IE = renderPage("og"), renderPage("schema"), renderPage("ie")
	c := &Case{Property: "C14", HTML: renderPage(""), Opts: genOpts(t, 30)}
	c.SetExtra(ex)
	return c
}

func normMI(mi data.MarkupInfo) data.MarkupInfo {
	if len(mi.Article.Authors) == 0 {
		mi.Article.Authors = nil
	}
	if len(mi.Images) == 0 {
		mi.Images = nil
	}
	return mi
}

func miJSON(mi data.MarkupInfo) string {
	b, _ := json.Marshal(normMI(mi))
	return string(b)
}

func articleEmpty(a data.MarkupArticle) bool {
	return a.PublishedTime == "" && a.ModifiedTime == "" && a.ExpirationTime == "" && a.Section == "" && len(a.Authors) == 0
}

func firstNonEmpty(vs ...string) string {
	for _, v := range vs {
		if v != "" {
			return v
		}
	}
	return ""
}

func checkC14(c *Case) (*Violation, caseInfo) {
	var info caseInfo
	var ex c14Extra
	c.GetExtra(&ex)
	if ex.OG == "" || ex.Schema == "" || ex.IE == "" {
		info.Skip = "no-single-source-pages"
		return nil, info
	}
	get := func(src string) (data.MarkupInfo, bool) {
		_, out := applyHTML(src, c.Opts)
		if out.Panicked || out.Err != nil || out.Res == nil {
			return data.MarkupInfo{}, false
		}
		return out.Res.MarkupInfo, true
	}
	full, ok1 := get(c.HTML)
	og, ok2 := get(ex.OG)
	sc, ok3 := get(ex.Schema)
	ie, ok4 := get(ex.IE)
	if !(ok1 && ok2 && ok3 && ok4) {
		info.Skip = "apply-failed"
		return nil, info
	}
	zero := miJSON(data.MarkupInfo{})

	// A2: opt-out
	if ex.OptOut {
		info.Classes = append(info.Classes, "opt-out")
		info.NonTrivial = miJSON(og) != zero || miJSON(sc) != zero
		if miJSON(full) != zero {
			return violationf("C14 opt-out-ignored", "the page opts out with IE_RM_OFF but MarkupInfo is %s", miJSON(full)), info
		}
		return nil, info
	}

	// A1: OpenGraph qualification, decided on the OpenGraph-only page (no other source present)
	if ex.OGMissing != "" || ex.OGQualified {
		if ex.OGQualified {
			info.Classes = append(info.Classes, "og-qualified")
			wantType := ""
			if strings.EqualFold(ex.OGType, "article") {
				wantType = "Article"
			}
			switch {
			case og.Title != ex.OGTitle, og.URL != ex.OGURL, og.Description != ex.OGDesc, og.Publisher != ex.OGSite, og.Type != wantType, len(og.Images) != ex.OGImages:
				return violationf("C14 opengraph-values", "a complete OpenGraph block (title %q, type %q, url %q, description %q, site_name %q, %d images) yields %s",
					ex.OGTitle, ex.OGType, ex.OGURL, ex.OGDesc, ex.OGSite, ex.OGImages, miJSON(og)), info
			}
			// type-dependent properties, wherever og:type stands among them
			wantArticle := data.MarkupArticle{}
			if strings.EqualFold(ex.OGType, "article") {
				wantArticle = data.MarkupArticle{PublishedTime: ex.OGPublished, ModifiedTime: ex.OGModified, ExpirationTime: ex.OGExpires, Section: ex.OGSection, Authors: ex.OGAuthors}
			}
			ja, _ := json.Marshal(wantArticle)
			jb, _ := json.Marshal(og.Article)
			if strings.ReplaceAll(string(ja), `"Authors":null`, `"Authors":[]`) != strings.ReplaceAll(string(jb), `"Authors":null`, `"Authors":[]`) {
				return violationf("C14 opengraph-article-record type="+strings.ToLower(ex.OGType), "a complete OpenGraph block of type %q with article properties %s yields the article record %s", ex.OGType, ja, jb), info
			}
			wantAuthor, pinAuthor := "", true
			if strings.EqualFold(ex.OGType, "profile") {
				switch {
				case ex.OGFirst != "" && ex.OGLast != "":
					wantAuthor = ex.OGFirst + " " + ex.OGLast
				case ex.OGFirst != "":
					wantAuthor = ex.OGFirst
				case ex.OGLast != "":
					pinAuthor = false // a family name alone: not pinned
				}
			}
			if pinAuthor && og.Author != wantAuthor {
				return violationf("C14 opengraph-profile-author", "a complete OpenGraph block of type %q with first name %q and last name %q yields Author=%q", ex.OGType, ex.OGFirst, ex.OGLast, og.Author), info
			}
		} else {
			info.Classes = append(info.Classes, "og-disqualified:missing-"+ex.OGMissing)
			if miJSON(og) != zero {
				return violationf("C14 opengraph-used-although-incomplete missing="+ex.OGMissing,
					"the OpenGraph block lacks its required %q property, yet it provides %s", ex.OGMissing, miJSON(og)), info
			}
		}
	}
	// A3: pins for the other two sources (simple facts only)
	if ex.SchemaArticles > 0 {
		if sc.Type != "Article" || sc.Title != ex.SchemaTitle {
			return violationf("C14 schemaorg-values", "schema.org markup with %d article item(s), first headline/name %q, yields Type=%q Title=%q", ex.SchemaArticles, ex.SchemaTitle, sc.Type, sc.Title), info
		}
	} else if sc.Type != "" || sc.Title != "" {
		return violationf("C14 schemaorg-values", "schema.org markup without article items yields Type=%q Title=%q", sc.Type, sc.Title), info
	} else if ex.SchemaRelAuthor != "" && sc.Author != ex.SchemaRelAuthor {
		// without an article item the author can only come from rel=author
		return violationf("C14 schemaorg-rel-author", "rel=author element with text %q (no article item) yields Author=%q", ex.SchemaRelAuthor, sc.Author), info
	}
	if ex.SchemaArticles > 0 && !ex.SchemaArticleHasAuthor && ex.SchemaRelAuthor != "" && sc.Author != ex.SchemaRelAuthor {
		return violationf("C14 schemaorg-rel-author-with-authorless-article", "no article item names an author or creator, the page has a rel=author element with text %q, but schema.org yields Author=%q", ex.SchemaRelAuthor, sc.Author), info
	}
	if ex.SchemaDatePin != "" && sc.Article.PublishedTime != ex.SchemaDatePin {
		return violationf("C14 schemaorg-date-from-element-text", "the first article's datePublished is a <time> element without datetime attribute and the text %q, but schema.org yields PublishedTime=%q", ex.SchemaDatePin, sc.Article.PublishedTime), info
	}
	if ex.SchemaAuthorPin != "" && sc.Author != ex.SchemaAuthorPin {
		return violationf("C14 schemaorg-author-after-unsupported-item", "the first article's author is given as an item of an unsupported type and then as the Person %q, but schema.org yields Author=%q", ex.SchemaAuthorPin, sc.Author), info
	}
	if ie.Title != ex.IETitle || ie.Copyright != ex.IECopyright || ie.Article.PublishedTime != ex.IEDate {
		return violationf("C14 iereader-values", "IE markup (title %q, copyright %q, date %q) yields %s", ex.IETitle, ex.IECopyright, ex.IEDate, miJSON(ie)), info
	}

	// B: the full page must equal the precedence fold of the three single-source results
	want := data.MarkupInfo{
		Title:       firstNonEmpty(og.Title, sc.Title, ie.Title),
		Type:        firstNonEmpty(og.Type, sc.Type, ie.Type),
		URL:         firstNonEmpty(og.URL, sc.URL, ie.URL),
		Description: firstNonEmpty(og.Description, sc.Description, ie.Description),
		Publisher:   firstNonEmpty(og.Publisher, sc.Publisher, ie.Publisher),
		Copyright:   firstNonEmpty(og.Copyright, sc.Copyright, ie.Copyright),
		Author:      firstNonEmpty(og.Author, sc.Author, ie.Author),
	}
	switch {
	case !articleEmpty(og.Article):
		want.Article = og.Article
		info.Classes = append(info.Classes, "article-from:og")
	case sc.Type == "Article":
		want.Article = sc.Article
		info.Classes = append(info.Classes, "article-from:schema")
	default:
		want.Article = ie.Article
		if !articleEmpty(ie.Article) {
			info.Classes = append(info.Classes, "article-from:ie")
		}
	}
	switch {
	case len(og.Images) > 0:
		want.Images = og.Images
		info.Classes = append(info.Classes, "images-from:og")
	case len(sc.Images) > 0:
		want.Images = sc.Images
		info.Classes = append(info.Classes, "images-from:schema")
	default:
		want.Images = ie.Images
		if len(ie.Images) > 0 {
			info.Classes = append(info.Classes, "images-from:ie")
		}
	}
	if miJSON(full) != miJSON(want) {
		return violationf("C14 precedence fields="+diffMI(full, want),
			"MarkupInfo of the full page differs from the precedence fold of its three sources:\n full:   %s\n expect: %s\n og:     %s\n schema: %s\n ie:     %s",
			miJSON(full), miJSON(want), miJSON(og), miJSON(sc), miJSON(ie)), info
	}
	// non-trivial: >=2 sources provide different non-empty values for >=2 fields, or OG is disqualified by exactly one property
	conflicts := 0
	pairs := [][3]string{{og.Title, sc.Title, ie.Title}, {og.Publisher, sc.Publisher, ie.Publisher}, {og.Author, sc.Author, ie.Author},
		{og.Type, sc.Type, ie.Type}, {og.URL, sc.URL, ie.URL}, {og.Description, sc.Description, ie.Description}, {og.Copyright, sc.Copyright, ie.Copyright}}
	for _, p := range pairs {
		seen := map[string]bool{}
		for _, v := range p {
			if v != "" {
				seen[v] = true
			}
		}
		if len(seen) >= 2 {
			conflicts++
		}
	}
	info.Classes = append(info.Classes, fmt.Sprintf("conflicting-fields:%d", min(conflicts, 3)))
	info.NonTrivial = conflicts >= 2 || (ex.OGMissing != "" && ex.OGMissing != "empty-title")
	info.Classes = dedup(info.Classes)
	return nil, info
}

func diffMI(a, b data.MarkupInfo) string {
	var fs []string
	a, b = normMI(a), normMI(b)
	add := func(n string, x, y interface{}) {
		if fmt.Sprint(x) != fmt.Sprint(y) {
			fs = append(fs, n)
		}
	}
	add("Title", a.Title, b.Title)
	add("Type", a.Type, b.Type)
	add("URL", a.URL, b.URL)
	add("Description", a.Description, b.Description)
	add("Publisher", a.Publisher, b.Publisher)
	add("Copyright", a.Copyright, b.Copyright)
	add("Author", a.Author, b.Author)
	add("Article", a.Article, b.Article)
	add("Images", a.Images, b.Images)
	return strings.Join(fs, "+")
}

func TestC14(t *testing.T) { runProp(t, genC14, checkC14) }
