package props

import (
	"encoding/base64"
	"os"
	"path/filepath"
	"testing"

	"pgregory.net/rapid"
)

// Native coverage-guided fuzzing for C01 (thorough tier only). The semantic oracle is the same
// checkC01 that the rapid layer uses; a panic that is a recorded known finding returns normally so
// that a campaign is not ended by an already known, shallow defect.

func fuzzOpts(sel uint32) OptSpec {
	if sel%23 == 0 {
		return OptSpec{Nil: true}
	}
	o := c01URLs[int(sel>>8)%len(c01URLs)]
	if sel&1 != 0 {
		o.LogFlags = uint(sel>>3) & 31
	}
	o.Skip = sel&2 != 0 && sel&4 != 0
	o.Algo = uint(sel>>1) & 1
	return o
}

func FuzzC01Reader(f *testing.F) {
	seeds := []string{
		"", "<", "<html>", "<p>x</p>", `<a href="javascript:void(0)">x</a> tail`,
		`<html><body><p>` + "word word word word word word word word word word word word word word word word word word word word" + `</p><div>1 <a href="/a/2">2</a> <a href="/a/3">3</a></div></body></html>`,
		`<a href="http://ȺȺȺȺȺȺ.com/">2</a>`, `<table><tr><th>a</th><th>b</th></tr><tr><td>1</td><td>2</td></tr></table>`,
		`<figure><noscript><img src="a.png"></noscript><figcaption>c <a href="x">l</a></figcaption></figure>`,
		`<blockquote class="twitter-tweet"><a href="https://twitter.com/u/status/1">t</a></blockquote>`,
		`<iframe src="//www.youtube.com/v/abc&x=1"></iframe><object><param name="movie" value="http://www.youtube.com/v/x"></object>`,
		`<html prefix="og: http://ogp.me/ns#"><head><meta property="og:title" content="t"><meta property="og:type" content="article"><meta property="og:url" content="u"><meta property="og:image" content="i"><title>A B C - Section - Site</title></head><body><h1>A B C</h1></body></html>`,
		`<div itemscope itemtype="http://schema.org/Article"><span itemprop="author" itemscope itemtype="http://schema.org/Person"><span itemprop="name">n</span></span></div>`,
		`<ul><li>a<ul><li>b<pre>c</pre></li></ul></li></ul><picture><source srcset="a 1x, b 2x"></picture><video poster=p><source src=s></video>`,
		"\xff\xfe<\x00p\x00>\x00", `<meta charset="shift_jis"><p>` + "\x83\x65\x83\x58\x83\x67" + `</p>`, `<span style="DISPLAY:NONE">x</span><font>y</font><svg><title>t</title></svg>`,
	}
	for i, s := range seeds {
		f.Add([]byte(s), uint32(i*7919+256))
		f.Add([]byte(s), uint32(i*104729+513))
	}
	if ents, err := os.ReadDir("/repo/internal/testutil"); err == nil {
		_ = ents
	}
	if b, err := os.ReadFile("/repo/example/sample.html"); err == nil && len(b) > 4000 {
		f.Add(b[:4000], uint32(257))
	}
	f.Fuzz(func(t *testing.T, data []byte, sel uint32) {
		if len(data) > 1<<16 {
			return
		}
		c := &Case{Property: "C01", Kind: "fuzz-bytes", Opts: fuzzOpts(sel)}
		entry := "reader"
		if sel&64 != 0 && sel&128 != 0 {
			entry = "file"
		}
		c.SetExtra(c01Extra{Layer: "bytes", Bytes: base64.StdEncoding.EncodeToString(data), Entry: entry})
		if v := evalCase(c, checkC01); v != nil {
			t.Fatalf("property C01 violated [%s]: %s", v.Signature, v.Detail)
		}
	})
}

func FuzzC01Tree(f *testing.F) {
	f.Add([]byte{})
	f.Add([]byte{1, 2, 3, 4, 5, 6, 7, 8, 9, 10, 11, 12, 13, 14, 15, 16})
	f.Add(make([]byte, 512))
	f.Fuzz(rapid.MakeFuzz(func(rt *rapid.T) {
		c := genC01Tree(rt)
		if v := evalCase(c, checkC01); v != nil {
			rt.Fatalf("property C01 violated [%s]: %s", v.Signature, v.Detail)
		}
	}))
}

var _ = filepath.Join
