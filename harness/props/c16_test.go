package props

import (
	"fmt"
	nurl "net/url"
	"strings"
	"testing"

	"golang.org/x/net/html"
	"pgregory.net/rapid"
)

// C16 — pagination links are real, same-site, fetchable URLs.

func init() { register("C16", checkC16) }

func genC16(t *rapid.T) *Case {
	var pg pagerPage
	if rapid.IntRange(0, 3).Draw(t, "pagerkind") == 0 {
		pg = genURLPager(t)
	} else {
		pg = genPager(t)
	}
	c := &Case{Property: "C16", HTML: pg.HTML}
	c.Opts = OptSpec{URL: pg.PageURL, Algo: uint(rapid.IntRange(0, 1).Draw(t, "algo"))}
	if rapid.IntRange(0, 9).Draw(t, "log") == 0 {
		c.Opts.LogFlags = 8 // LogPagination
	}
	return c
}

func checkC16(c *Case) (*Violation, caseInfo) {
	var info caseInfo
	page, err := nurl.Parse(c.Opts.URL)
	if err != nil || (page.Scheme != "http" && page.Scheme != "https") || page.Host == "" {
		info.Skip = "page-url-not-http"
		return nil, info
	}
	doc, out := applyHTML(c.HTML, c.Opts)
	if out.Panicked || out.Err != nil || out.Res == nil {
		info.Skip = "apply-failed"
		if out.Panicked {
			info.Skip = "apply-panicked" // C01's business
			info.Skip = "apply-panicked:" + firstRepoFrame(out.Stack) + ":" + truncate(fmt.Sprint(out.PanicVal), 80)
		} else if out.Err != nil {
			info.Skip = "apply-error:" + truncate(out.Err.Error(), 60)
		}
		return nil, info
	}
	algo := []string{"PrevNext", "PageNumber"}[c.Opts.Algo&1]
	// all anchor targets of the document, resolved by the harness
	targets := map[string]bool{}
	hasPlaceholder, hasOffsite := false, false
	for _, a := range findAll(doc, func(n *html.Node) bool { return isElem(n, "a") }) {
		href, ok := attr(a, "href")
		if !ok {
			continue
		}
		h := strings.TrimSpace(href)
		if h == "" || strings.HasPrefix(strings.ToLower(h), "javascript:") {
			hasPlaceholder = true
		}
		ref, err := nurl.Parse(h)
		if err != nil {
			continue
		}
		abs := page.ResolveReference(ref)
		if abs.Host != "" && !strings.EqualFold(abs.Hostname(), page.Hostname()) {
			hasOffsite = true
		}
		targets[normTarget(abs)] = true
	}
	var viol *Violation
	for _, f := range []struct{ name, val string }{{"NextPage", out.Res.PaginationInfo.NextPage}, {"PrevPage", out.Res.PaginationInfo.PrevPage}} {
		if f.val == "" {
			continue
		}
		info.Classes = append(info.Classes, algo+":"+f.name+"-found")
		u, err := nurl.Parse(f.val)
		switch {
		case err != nil:
			viol = violationf("C16 unparseable algo="+algo, "%s=%q does not parse: %v", f.name, f.val, err)
		case u.Scheme != "http" && u.Scheme != "https":
			viol = violationf("C16 scheme="+u.Scheme+" algo="+algo, "%s=%q is not an http(s) URL (page %s)", f.name, f.val, c.Opts.URL)
		case u.Host == "":
			viol = violationf("C16 empty-host algo="+algo, "%s=%q has no host", f.name, f.val)
		case !strings.EqualFold(u.Hostname(), page.Hostname()) || u.Port() != page.Port():
			viol = violationf("C16 off-site algo="+algo, "%s=%q is not on the page's host %q", f.name, f.val, page.Host)
		case u.User != nil:
			viol = violationf("C16 userinfo algo="+algo, "%s=%q carries user info", f.name, f.val)
		case !targets[normTarget(u)]:
			viol = violationf("C16 made-up-url algo="+algo, "%s=%q is not the normalised target of any anchor of the document (page %s)", f.name, f.val, c.Opts.URL)
		}
		if viol != nil {
			break
		}
	}
	found := out.Res.PaginationInfo.NextPage != "" || out.Res.PaginationInfo.PrevPage != ""
	if hasPlaceholder {
		info.Classes = append(info.Classes, "has-placeholder-anchor")
	}
	if hasOffsite {
		info.Classes = append(info.Classes, "has-offsite-anchor")
	}
	info.NonTrivial = found && (hasPlaceholder || hasOffsite)
	return viol, info
}

func TestC16(t *testing.T) { runProp(t, genC16, checkC16) }
