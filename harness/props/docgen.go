package props

import (
	"fmt"
	"strings"

	"pgregory.net/rapid"
)

// G is the page generator. Every random choice is drawn from rapid; words are produced by a
// per-case counter so that each token of a page is unique.
type G struct {
	t      *rapid.T
	n      int
	prefix []string
	P      *Profile
	depth  int
	Media  []string // ids of media elements emitted, in order
	sepN   int      // number of word-less separator blocks emitted so far
}

type wc struct {
	k string
	w int
}

// Profile biases the generator for one property.
type Profile struct {
	Top                 []wc // weights of top-level block kinds
	Nested              []wc // weights of block kinds inside containers, list items, quotes, cells
	Core                []wc // if set: weights of block kinds inside the article core (see page)
	MinTop              int
	MaxTop              int
	MaxDepth            int
	Title               bool                           // emit a <title> (tokens are class A: they live in head)
	Attr                func(g *G, tag string) string  // extra attributes for any element ("" if none)
	URL                 func(g *G, kind string) string // URL reference for anchors and media
	LenMix              [3]int                         // weights of short / medium / long paragraphs
	Inline              []wc                           // weights of inline run kinds
	HeadJunk            bool                           // script/style in head
	Carriers            int                            // percentage chance of class A / class B carriers inside cells, captions, tweets
	TablesInLists       int                            // weight of data tables as the (only) content of list items and quotes
	InlineBlocksInCells bool                           // cells with adjacent inline elements styled display:block
	NoSymbolLinks       bool                           // no links whose text is a bare symbol (C08 identifies word-less text by its characters)
	RowGaps             bool                           // comments / scripts between the rows and cells of data tables
	EscapedText         bool                           // pre blocks may hold escaped markup as visible text
	EmptyCells          bool                           // data tables may hold empty cells and spacer rows
	InlineNestables     bool                           // ul/ol/li/blockquote/pre may carry style="display:inline"
	ForeignRawText      bool                           // raw-text elements with markup-like text inside svg/math (cells, captions, tweets, inline)
	LessThanInCaptions  bool                           // figure captions / paragraphs inside figures may hold a literal "<"
	CommaURLs           bool                           // image URLs may hold commas (w_400,h_300 style path segments)
}

func newG(t *rapid.T, p *Profile) *G {
	return &G{t: t, P: p, prefix: []string{"t"}}
}

func (g *G) intn(lo, hi int, label string) int {
	if hi <= lo {
		return lo
	}
	return rapid.IntRange(lo, hi).Draw(g.t, label)
}

// chance is true with roughly pct percent probability. rapid's ranged integers are biased towards
// small values, so the orientation of the comparison alternates with a fair bit; "false" stays
// the value rapid shrinks to.
func (g *G) chance(pct int, label string) bool {
	v := rapid.IntRange(0, 99).Draw(g.t, label)
	if rapid.Bool().Draw(g.t, label+"~") {
		return v < pct
	}
	return v >= 100-pct
}

func (g *G) pick(label string, opts ...string) string {
	return opts[g.intn(0, len(opts)-1, label)]
}

func (g *G) weighted(label string, ws []wc) string {
	tot := 0
	for _, w := range ws {
		tot += w.w
	}
	x := g.intn(0, tot-1, label)
	for _, w := range ws {
		if x < w.w {
			return w.k
		}
		x -= w.w
	}
	return ws[0].k
}

func (g *G) push(p string) { g.prefix = append(g.prefix, p) }
func (g *G) pop()          { g.prefix = g.prefix[:len(g.prefix)-1] }

// tok returns a fresh token with the current prefix ("t" visible text, "ha" class A, "hb" class B).
func (g *G) tok() string {
	g.n++
	return fmt.Sprintf("%s%dq", g.prefix[len(g.prefix)-1], g.n)
}

// tokp returns a fresh token with an explicit prefix (used for ids inside URLs).
func (g *G) tokp(p string) string {
	g.n++
	return fmt.Sprintf("%s%dq", p, g.n)
}

func (g *G) words(k int) string {
	var b strings.Builder
	for i := 0; i < k; i++ {
		if i > 0 {
			b.WriteByte(' ')
		}
		b.WriteString(g.tok())
		if i%9 == 8 && i != k-1 {
			b.WriteString([]string{",", ".", ";", "?", "!"}[(g.n/9)%5])
		}
	}
	return b.String()
}

func (g *G) at(tag string) string {
	if g.P.Attr == nil {
		return ""
	}
	return g.P.Attr(g, tag)
}

func (g *G) url(kind string) string {
	if g.P.URL != nil {
		return g.P.URL(g, kind)
	}
	// a third of the references are path-relative, so that their resolution depends on the page's directory
	rel := ""
	switch g.intn(0, 6, "urlrel") {
	case 4:
		rel = "rel"
	case 5:
		rel = "../up"
	case 6:
		if kind == "a" {
			return "?ref=" + g.tokp("l")
		}
	}
	switch kind {
	case "a":
		if g.P.URL == nil && g.intn(0, 14, "asection") == 0 {
			return rel + "/link/index.php?page=2&amp;section=" + g.tokp("l") // an ordinary link with a "section" parameter
		}
		return rel + "/link/" + g.tokp("l") + ".html"
	case "video", "source-v":
		return rel + "/vid/" + g.tokp("v") + ".mp4"
	case "track":
		return rel + "/vid/" + g.tokp("v") + ".vtt"
	default:
		if rel != "" {
			return rel + "/img/" + g.tokp("i") + ".png"
		}
		if g.P.CommaURLs && g.intn(0, 3, "commaurl") == 0 {
			return "/img/w_400,h_300/" + g.tokp("i") + ".png"
		}
		return "/img/" + g.tokp("i") + ".png"
	}
}

func (g *G) plen() int {
	mix := g.P.LenMix
	if mix == [3]int{} {
		mix = [3]int{35, 30, 35}
	}
	switch g.weighted("plen", []wc{{"s", mix[0]}, {"m", mix[1]}, {"l", mix[2]}}) {
	case "s":
		return g.intn(1, 10, "ws")
	case "m":
		return g.intn(11, 30, "wm")
	default:
		return g.intn(31, 90, "wl")
	}
}

var defaultInline = []wc{{"text", 50}, {"b", 5}, {"i", 4}, {"em", 4}, {"strong", 4}, {"span", 5}, {"u", 2}, {"code", 3},
	{"font", 3}, {"a", 8}, {"ajs1", 4}, {"ajsn", 2}, {"br", 3}, {"nest", 3}, {"brbr", 2}}

// inline emits about k words as a mix of inline runs. Runs are always separated by white-space.
func (g *G) inline(k int) string {
	ws := g.P.Inline
	if ws == nil {
		ws = defaultInline
	}
	var parts []string
	left := k
	for left > 0 {
		kind := g.weighted("inl", ws)
		n := g.intn(1, min(left, 12), "inlw")
		switch kind {
		case "text":
			parts = append(parts, g.words(n))
		case "b", "i", "em", "strong", "span", "u", "code":
			parts = append(parts, "<"+kind+g.at(kind)+">"+g.words(n)+"</"+kind+">")
		case "font":
			parts = append(parts, `<font color="red"`+g.at("font")+">"+g.words(n)+"</font>")
		case "a":
			if !g.P.NoSymbolLinks && g.intn(0, 9, "asym") == 0 {
				// a link whose text holds no letter or digit
				parts = append(parts, g.words(n)+` <a href="`+g.url("a")+`"`+g.at("a")+">"+g.pick("asymt", "»", "*", "¶", "§", "·", "»»")+"</a>")
			} else {
				parts = append(parts, `<a href="`+g.url("a")+`"`+g.at("a")+">"+g.words(n)+"</a>")
			}
		case "ajs1":
			parts = append(parts, `<a href="javascript:void(0)"`+g.at("a")+">"+g.words(n)+"</a>")
		case "ajsn":
			m := g.intn(1, n, "ajsn")
			switch g.intn(0, 2, "ajsnform") {
			case 0:
				parts = append(parts, `<a href="javascript:go(`+fmt.Sprint(g.n)+`)">`+"<b>"+g.words(m)+"</b> "+g.words(max(1, n-m))+"</a>")
				n = m + max(1, n-m)
			case 1:
				hid := ""
				if g.P.Carriers > 0 && g.intn(0, 2, "ajshid") == 0 {
					// a hidden element inside the script link
					g.push("ha")
					hid = " " + g.hiddenOpen("span") + g.words(2) + "</span>"
					g.pop()
				}
				parts = append(parts, `<a href="javascript:void(0)">`+g.words(m)+" <b>"+g.words(max(1, n-m))+"</b>"+hid+" "+g.words(1)+"</a>")
				n = m + max(1, n-m) + 1
			default:
				parts = append(parts, `<a href="javascript:;">`+g.words(m)+"<br>"+g.words(max(1, n-m))+"</a>")
				n = m + max(1, n-m)
			}
		case "brbr":
			parts = append(parts, g.pick("brbrform", "<br><br>", "<br> <br>", "<br>\n<br>", "<br><br><br>")+g.words(n))
		case "br":
			parts = append(parts, "<br>"+g.words(n))
		case "hid":
			g.push("ha")
			tag := g.pick("hidinl", "span", "span", "font", "b", "i", "em", "strong", "u", "code", "a")
			parts = append(parts, g.hiddenOpen(tag)+g.words(n)+"</"+tag+">")
			g.pop()
			n = 0
		case "cbinl":
			g.push("hb")
			switch g.pick("cbi", "button", "select", "svg", "textarea", "input", "noscript", "object") {
			case "button":
				parts = append(parts, "<button>"+g.words(n)+"</button>")
			case "select":
				parts = append(parts, "<select><option>"+g.words(n)+"</option></select>")
			case "svg":
				parts = append(parts, "<svg><text>"+g.words(n)+"</text></svg>")
			case "textarea":
				parts = append(parts, "<textarea>"+g.words(n)+"</textarea>")
			case "input":
				parts = append(parts, `<input value="`+g.tok()+`">`)
			case "noscript":
				parts = append(parts, "<noscript>"+g.words(n)+"</noscript>")
			case "object":
				parts = append(parts, "<object>"+g.words(n)+"</object>")
			}
			g.pop()
			n = 0
		case "joined":
			// markup inside a word: no white space around the inline boundary
			a, b2 := g.tok(), g.tok()
			switch g.intn(0, 5, "joinform") {
			case 0:
				parts = append(parts, "<i>"+a+"</i>"+b2)
			case 1:
				parts = append(parts, a+"<span></span>"+b2)
			case 2:
				parts = append(parts, a+"<wbr>"+b2)
			case 3:
				parts = append(parts, a+"<b>"+b2+"</b>")
			case 4:
				parts = append(parts, a+"<!-- c -->"+b2)
			default:
				// two words separated only by an element that the distiller removes
				g.push("hb")
				parts = append(parts, a+"<button>"+g.tok()+"</button>"+b2)
				g.pop()
			}
			n = 2
		case "litword":
			// words that are also tag names, as the whole text of an inline element
			parts = append(parts, g.words(max(1, n-1))+" <"+"code>"+g.pick("litw", "br", "style", "script", "hr", "noscript")+"</code>")
		case "aempty":
			// a named anchor (jump target) without content, between words or right before a link
			anchor := g.pick("aemptyform", `<a name="src"></a>`, `<a id="ref1"></a>`, `<a></a>`, `<a name="n"></a>`)
			if g.chance(60, "aemptylink") {
				parts = append(parts, g.words(n)+" "+anchor+`<a href="`+g.url("a")+`">`+g.words(2)+"</a>")
				n += 2
			} else {
				m := g.intn(1, max(1, n-1), "aemptyw")
				parts = append(parts, g.words(m)+" "+anchor+" "+g.words(max(1, n-m)))
				n = m + max(1, n-m)
			}
		case "brlast":
			// a line break as the last child of an inline element, text going on after it
			m := g.intn(1, max(1, n-1), "brlastw")
			bt := g.pick("brlasttag", "b", "em", "span", "i")
			parts = append(parts, "<"+bt+">"+g.words(m)+"<br></"+bt+">"+g.words(max(1, n-m)))
			n = m + max(1, n-m)
		case "mxss":
			parts = append(parts, g.foreignRawText()+" "+g.words(n))
		case "escaped":
			// visible text that looks like markup (escaped in the source)
			parts = append(parts, g.pick("escform", "&lt;script&gt;"+g.words(n)+"&lt;/script&gt;", "&lt;b onmouseover=alert(1) id=x class=y style=z&gt;"+g.words(n)+"&lt;/b&gt;",
				"&lt;style&gt;."+g.words(n)+"{}&lt;/style&gt;", "&lt;img src=x onerror=alert(1)&gt; "+g.words(n), "&amp;lt;i&amp;gt;"+g.words(n)))
		case "script":
			parts = append(parts, strings.TrimSpace(g.script()))
			n = 0
		case "comment":
			parts = append(parts, strings.TrimSpace(g.comment()))
			n = 0
		case "nest":
			m := g.intn(1, n, "nestw")
			parts = append(parts, "<em>"+g.words(m)+" <strong>"+g.words(max(1, n-m))+"</strong></em>")
			n = m + max(1, n-m)
		}
		left -= max(n, 1)
	}
	return strings.Join(parts, " ")
}

func (g *G) para() string {
	return "<p" + g.at("p") + ">" + g.inline(g.plen()) + "</p>\n"
}

func (g *G) longPara(lo, hi int) string {
	return "<p" + g.at("p") + ">" + g.inline(g.intn(lo, hi, "longp")) + "</p>\n"
}

func (g *G) heading() string {
	h := g.pick("h", "h2", "h3", "h4", "h5", "h6")
	return "<" + h + g.at(h) + ">" + g.words(g.intn(2, 8, "hw")) + "</" + h + ">\n"
}

func (g *G) blocks(n int) string {
	var b strings.Builder
	g.depth++
	for i := 0; i < n; i++ {
		b.WriteString(g.block(g.weighted("nk", g.P.Nested)))
	}
	g.depth--
	return b.String()
}

// nestStyle: nestable elements sometimes carry an inline display style
func (g *G) nestStyle(label string) string {
	if g.P.InlineNestables && g.intn(0, 7, label) == 0 {
		return g.pick(label+"v", ` style="display:inline"`, ` style="display: inline;"`, ` style="display:inline-block"`)
	}
	return ""
}

func (g *G) list() string {
	tag := g.pick("lt", "ul", "ol")
	n := g.intn(1, 5, "li#")
	var b strings.Builder
	b.WriteString("<" + tag + g.nestStyle("ulstyle") + g.at(tag) + ">\n")
	g.depth++
	for i := 0; i < n; i++ {
		b.WriteString("<li" + g.nestStyle("listyle") + g.at("li") + ">")
		switch g.weighted("lik", []wc{{"inline", 45}, {"p", 20}, {"nested", 15}, {"pre", 5}, {"quote", 5}, {"mixed", 10}, {"table", g.P.TablesInLists}, {"tabletext", g.P.TablesInLists}}) {
		case "table":
			b.WriteString(g.dataTable())
		case "tabletext":
			b.WriteString(g.inline(g.plen()) + g.dataTable())
		case "inline":
			b.WriteString(g.inline(g.plen()))
		case "p":
			b.WriteString(g.para())
			if g.chance(30, "li2p") {
				b.WriteString(g.para())
			}
		case "nested":
			if g.chance(60, "lilead") {
				b.WriteString(g.inline(g.intn(1, 20, "lileadw")) + "\n")
			}
			if g.depth < g.P.MaxDepth+1 {
				b.WriteString(g.list())
			} else {
				b.WriteString(g.inline(g.plen()))
			}
		case "pre":
			b.WriteString(g.pre())
		case "quote":
			if g.depth < g.P.MaxDepth+1 {
				b.WriteString(g.quote())
			} else {
				b.WriteString(g.inline(g.plen()))
			}
		case "mixed":
			b.WriteString(g.inline(g.intn(1, 25, "mixw")))
			b.WriteString(g.para())
		}
		b.WriteString("</li>\n")
	}
	g.depth--
	b.WriteString("</" + tag + ">\n")
	return b.String()
}

func (g *G) quote() string {
	g.depth++
	defer func() { g.depth-- }()
	var b strings.Builder
	b.WriteString("<blockquote" + g.nestStyle("bqstyle") + g.at("blockquote") + ">")
	n := g.intn(1, 3, "q#")
	for i := 0; i < n; i++ {
		switch g.weighted("qk", []wc{{"p", 60}, {"list", 15}, {"pre", 10}, {"inline", 15}, {"table", g.P.TablesInLists}}) {
		case "table":
			b.WriteString(g.dataTable())
		case "p":
			b.WriteString(g.para())
		case "list":
			if g.depth < g.P.MaxDepth+1 {
				b.WriteString(g.list())
			} else {
				b.WriteString(g.para())
			}
		case "pre":
			b.WriteString(g.pre())
		case "inline":
			b.WriteString(g.inline(g.plen()) + "\n")
		}
	}
	b.WriteString("</blockquote>\n")
	return b.String()
}

func (g *G) pre() string {
	n := g.intn(1, 4, "prel")
	var lines []string
	form := g.pick("preform", "plain", "plain", "code", "div-lines", "span-lines")
	for i := 0; i < n; i++ {
		w := g.words(g.intn(1, 12, "prew"))
		if g.P.EscapedText && g.intn(0, 3, "preesc") == 0 {
			w = "&lt;script&gt;" + w + "&lt;/script&gt; &lt;p id=a onclick=b&gt;"
		}
		switch form {
		case "div-lines":
			w = `<div class="line">` + w + "</div>"
		case "span-lines":
			w = "<span>" + w + "</span>"
		}
		lines = append(lines, w)
	}
	body := strings.Join(lines, "\n")
	if form == "code" {
		body = "<code>" + body + "</code>"
	}
	return "<pre" + g.nestStyle("prestyle") + g.at("pre") + ">" + body + "</pre>\n"
}

func (g *G) container() string {
	tag := g.pick("ct", "div", "section", "article", "main", "div")
	return "<" + tag + g.at(tag) + ">\n" + g.blocks(g.intn(1, 4, "c#")) + "</" + tag + ">\n"
}

// dataTable emits a table that the documented cascade classifies as data: >=2 rows, >=2 columns,
// a header row of non-empty <th>. The first header token identifies the table.
func (g *G) dataTable() string {
	rows := g.intn(2, 4, "dtr")
	cols := g.intn(2, 4, "dtc")
	var b strings.Builder
	b.WriteString("<table" + g.at("table") + ">")
	if g.chance(25, "dtcap") {
		b.WriteString("<caption" + g.at("caption") + ">" + g.words(g.intn(1, 6, "capw")) + "</caption>")
	}
	b.WriteString("<tr" + g.at("tr") + ">")
	for c := 0; c < cols; c++ {
		if c > 0 && g.P.EmptyCells && g.intn(0, 7, "emptyth") == 0 {
			b.WriteString("<th" + g.at("th") + "></th>") // empty corner / header cell (never the first: it identifies the table)
			continue
		}
		b.WriteString("<th" + g.at("th") + ">" + g.words(g.intn(1, 3, "thw")) + "</th>")
	}
	b.WriteString("</tr>\n")
	for r := 0; r < rows; r++ {
		if g.P.RowGaps && g.intn(0, 4, "rowgap") == 0 {
			b.WriteString(g.pick("rowgapk", "<!-- row group -->", "<script>var r=1</script>", "<!---->"))
		}
		b.WriteString("<tr" + g.at("tr") + ">")
		spacer := g.P.EmptyCells && g.intn(0, 9, "spacer") == 0
		for c := 0; c < cols; c++ {
			if c > 0 && g.P.RowGaps && g.intn(0, 9, "cellgap") == 0 {
				b.WriteString("<!-- c -->")
			}
			if spacer || (g.P.EmptyCells && g.intn(0, 7, "emptycell") == 0) {
				b.WriteString("<td" + g.at("td") + "></td>")
				continue
			}
			if g.P.EmptyCells && g.intn(0, 9, "voidcell") == 0 {
				// a cell that holds nothing that is displayed (placeholder comment, hidden note, script)
				g.push("ha")
				b.WriteString("<td" + g.at("td") + ">" + g.pick("voidcellk", "<!-- no value -->", "<span hidden>"+g.words(1)+"</span>", "<script>var c=0</script>", "<!-- a --><!-- b -->", `<span style="display:none">`+g.words(1)+"</span>") + "</td>")
				g.pop()
				continue
			}
			b.WriteString("<td" + g.at("td") + ">" + g.cell() + "</td>")
		}
		b.WriteString("</tr>\n")
	}
	b.WriteString("</table>\n")
	if g.P.ForeignRawText && g.intn(0, 5, "xmpafter") == 0 {
		b.WriteString("<xmp>some &lt;b&gt; <img src=x onerror=alert(1) id=pwn> text</xmp>\n")
	}
	return b.String()
}

// carrier emits a class A or class B carrier usable inside cells, captions and tweets.
func (g *G) carrier() string {
	switch g.pick("car", "hidspan", "hiddiv", "script", "style", "comment", "classb", "hidspan", "script") {
	case "hidspan":
		g.push("ha")
		defer g.pop()
		return g.hiddenOpen("span") + g.words(g.intn(1, 4, "carw")) + "</span>"
	case "hiddiv":
		g.push("ha")
		defer g.pop()
		return g.hiddenOpen("div") + g.words(g.intn(1, 4, "carw")) + "</div>"
	case "script":
		return strings.TrimSpace(g.script())
	case "style":
		return strings.TrimSpace(g.style())
	case "comment":
		return strings.TrimSpace(g.comment())
	default:
		return strings.TrimSpace(g.classB())
	}
}

// foreignRawText emits inert text that looks like markup inside raw-text elements in foreign content
// (svg / math); serialising and parsing again must not bring it to life.
func (g *G) foreignRawText() string {
	payload := g.pick("mxpay", `&lt;img src=x onerror=alert(1) id=pwn class=c style="x:y"&gt;`, `&lt;script&gt;alert(1)&lt;/script&gt;`,
		`&lt;b onmouseover=a() id=i&gt;x&lt;/b&gt;`, `&lt;style&gt;*{}&lt;/style&gt;&lt;p class=k&gt;`,
		// markup that imitates the distiller's own embed placeholder
		`&lt;div class="embed-placeholder" data-type="youtube" data-id="`+g.tokp("fg")+`"&gt;&lt;/div&gt;`, `&lt;div class="embed-placeholder x" data-type="vimeo" data-id="`+g.tokp("fg")+`"&gt;y&lt;/div&gt;`)
	switch g.pick("mxform", "svg-xmp", "svg-noembed", "math-xmp", "annotation-xml", "svg-noscript", "svg-plaintext", "svg-two-siblings") {
	case "svg-xmp":
		return "<svg><xmp>" + payload + "</xmp></svg>"
	case "svg-noembed":
		return "<svg><noembed>" + payload + "</noembed></svg>"
	case "math-xmp":
		return `<math style="display:inline"><xmp style="display:inline">` + payload + "</xmp></math>"
	case "annotation-xml":
		return `<math><annotation-xml encoding="text/html"><xmp>` + strings.NewReplacer("&lt;", "<", "&gt;", ">").Replace(payload) + "</xmp></annotation-xml></math>"
	case "svg-noscript":
		return "<svg><noscript>" + payload + "</noscript></svg>"
	case "svg-two-siblings":
		return "<svg><xmp>x</xmp><noembed>" + payload + "</noembed><noframes>" + payload + "</noframes></svg>"
	default:
		return "<svg><plaintext>x</plaintext></svg>"
	}
}

func (g *G) maybeCarrier(label string) string {
	if g.P.ForeignRawText && g.chance(12, label+"mx") {
		return " " + g.foreignRawText() + " "
	}
	if g.P.ForeignRawText && g.chance(6, label+"fp") {
		// an element of the page with the distiller's own marker class, inside content that is copied as a whole
		if g.intn(0, 2, "fpnoscript") == 0 {
			// the same markup as the raw text of a <noscript>
			return ` <noscript><div class="embed-placeholder" data-type="youtube" data-id="` + g.tokp("fg") + `"></div></noscript> `
		}
		return ` <div class="embed-placeholder" data-type="youtube" data-id="` + g.tokp("fg") + `">` + g.words(2) + "</div> "
	}
	if g.P.Carriers > 0 && g.chance(g.P.Carriers, label) {
		return " " + g.carrier() + " "
	}
	return ""
}

// cell content of a data-table cell.
func (g *G) cell() string {
	if c := g.maybeCarrier("cellcar"); c != "" {
		if g.chance(50, "cellcarpos") {
			return g.words(g.intn(1, 4, "cw")) + c
		}
		return c + g.words(g.intn(1, 4, "cw"))
	}
	switch g.weighted("cellk", []wc{{"w", 60}, {"inl", 20}, {"img", 8}, {"list", 6}, {"p", 6}}) {
	case "w":
		return g.words(g.intn(1, 6, "cw"))
	case "inl":
		return g.inline(g.intn(1, 10, "ciw"))
	case "img":
		if g.intn(0, 3, "cellmap") == 0 {
			m := g.tokp("map")
			return `<img src="` + g.url("img") + `" usemap="#` + m + `"><map name="` + m + `"><area shape="rect" coords="0,0,5,5" href="` + g.url("a") + `" alt="` + g.tokp("alt") + `"></map>` + g.words(1)
		}
		if g.intn(0, 3, "celllinked") == 0 {
			// a linked thumbnail
			return `<a href="` + g.url("a") + `"><img src="` + g.url("img") + `" srcset="` + g.srcset("srcset") + `"></a>` + g.words(1)
		}
		if g.intn(0, 2, "cellss") == 0 {
			return `<img srcset="` + g.srcset("srcset") + `" src="` + g.url("img") + `"` + g.at("img") + ">" + g.words(1)
		}
		return `<img src="` + g.url("img") + `"` + g.at("img") + ">" + g.words(1)
	case "list":
		if g.P.InlineBlocksInCells && g.intn(0, 1, "cellinlblk") == 0 {
			// inline-tag elements displayed as blocks, with nothing between them in the markup
			return `<span style="display:block">` + g.words(g.intn(1, 4, "cibw")) + `</span><span style="display:block">` + g.words(g.intn(1, 4, "cibw2")) + `</span><b style="display:block">` + g.words(1) + "</b>"
		}
		return "<ul><li>" + g.words(g.intn(1, 5, "clw")) + "</li><li>" + g.words(g.intn(1, 5, "clw2")) + "</li></ul>"
	default:
		return "<p>" + g.words(g.intn(1, 12, "cpw")) + "</p>"
	}
}

// layoutTable emits a single-row table (rule "at most one row" makes it layout) whose cells
// hold ordinary blocks.
func (g *G) layoutTable() string {
	cols := g.intn(1, 3, "ltc")
	var b strings.Builder
	b.WriteString("<table" + g.at("table") + "><tr>")
	bare := g.intn(0, 2, "ltbare") == 0 // cells hold bare inline text, and nothing separates the cells in the markup
	for c := 0; c < cols; c++ {
		if bare {
			b.WriteString("<td" + g.at("td") + ">" + g.inline(g.plen()) + "</td>")
			continue
		}
		b.WriteString("<td" + g.at("td") + ">" + g.blocks(g.intn(1, 3, "lt#")) + "</td>")
	}
	b.WriteString("</tr></table>\n")
	return b.String()
}

func (g *G) srcset(kind string) string {
	switch g.intn(0, 9, "ssform") {
	case 0, 1, 2, 3:
		return g.url(kind) + " 1x, " + g.url(kind) + " 2x"
	case 4, 5, 6:
		return g.url(kind) + " 480w, " + g.url(kind) + " 800w"
	case 7: // descriptors the HTML specification allows but a simple pattern does not expect
		return g.url(kind) + " 1e1x, " + g.url(kind) + " 1.5x"
	case 8:
		return g.url(kind) + " 100w 50h, " + g.url(kind) + " 200w"
	default: // no descriptor, odd spacing, trailing comma
		return g.url(kind) + " ,  " + g.url(kind) + " 2x,"
	}
}

func (g *G) img() string {
	s := `<img src="` + g.url("img") + `" alt="` + g.tokp("alt") + `"`
	switch g.intn(0, 9, "imglazy") {
	case 7:
		// two lazy attributes with different values: the documented priority decides
		s = `<img src="/static/placeholder.gif" data-original="` + g.url("img") + `" data-src="` + g.url("img") + `" alt="` + g.tokp("alt") + `"`
	case 8:
		s += ` data-src="` + g.url("img") + `"`
	case 9:
		s = `<img src="/static/placeholder.gif" data-original="` + g.url("img") + `" alt="` + g.tokp("alt") + `"`
	}
	if g.chance(30, "imgss") {
		s += ` srcset="` + g.srcset("srcset") + `"`
	}
	if g.chance(30, "imgwh") {
		s += ` width="640" height="400"`
	}
	return s + g.at("img") + ">\n"
}

func (g *G) picture() string {
	var b strings.Builder
	b.WriteString("<picture")
	if g.intn(0, 5, "piclazy") == 0 {
		// lazy-loading libraries also put their attributes on the <picture> itself
		b.WriteString(` data-srcset="` + g.srcset("srcset") + `"`)
	}
	b.WriteString(g.at("picture") + ">")
	if g.P.Carriers > 0 && g.chance(25, "piccomment") {
		b.WriteString(strings.TrimSpace(g.comment()))
	}
	n := g.intn(1, 2, "pics")
	for i := 0; i < n; i++ {
		if g.intn(0, 3, "picsrctype") == 0 {
			// the usual WebP fallback markup: one URL, a type, no descriptor
			b.WriteString(`<source srcset="` + g.url("srcset") + `" type="image/webp"` + g.at("source") + ">")
			continue
		}
		b.WriteString(`<source srcset="` + g.srcset("srcset") + `" media="(min-width: 600px)"` + g.at("source") + ">")
	}
	if g.chance(80, "picimg") {
		b.WriteString(`<img src="` + g.url("img") + `"` + g.at("img") + ">")
	}
	b.WriteString("</picture>\n")
	return b.String()
}

func (g *G) lazySpan() string {
	return `<span class="lazy-image-placeholder" data-src="` + g.url("img") + `" data-srcset="` + g.srcset("srcset") + `"></span>` + "\n"
}

func (g *G) figure() string {
	var b strings.Builder
	if g.P.LessThanInCaptions && g.intn(0, 3, "figlt") == 0 {
		// caption text with a literal "<" (escaped in the source), in a figcaption or in a plain paragraph
		k := g.intn(2, 8, "figltw")
		txt := g.words(k) + " &lt;" + g.words(g.intn(1, 6, "figltw2")) + " " + g.words(2)
		if g.intn(0, 1, "figltp") == 0 {
			return "<figure>" + strings.TrimSpace(g.img()) + "<p>" + txt + "</p></figure>\n"
		}
		return "<figure>" + strings.TrimSpace(g.img()) + "<figcaption>" + txt + "</figcaption></figure>\n"
	}
	b.WriteString("<figure" + g.at("figure") + ">")
	switch g.weighted("figk", []wc{{"img", 50}, {"picture", 20}, {"noscript", 20}, {"lazy", 10}}) {
	case "img":
		b.WriteString(strings.TrimSpace(g.img()))
	case "picture":
		b.WriteString(strings.TrimSpace(g.picture()))
	case "noscript":
		b.WriteString(`<img src="data:image/gif;base64,R0lGODlhAQABAAAAACw=" data-src="` + g.url("img") + `">`)
		b.WriteString(`<noscript><img src="` + g.url("img") + `"></noscript>`)
	case "lazy":
		b.WriteString(`<img data-src="` + g.url("img") + `" data-srcset="` + g.srcset("srcset") + `"` + g.at("img") + ">")
	}
	if g.P.Carriers > 0 && g.chance(12, "hiddencapwrap") {
		// a caption that sits under a hidden ancestor inside the figure: class A
		g.push("ha")
		mid, midEnd := "", ""
		if g.chance(50, "hiddencapdeep") {
			mid, midEnd = "<"+g.pick("hiddencapmid", "div", "span")+">", "" // a visible element between the hidden ancestor and the caption
			midEnd = "</" + mid[1:]
		}
		b.WriteString(g.hiddenOpen("div") + mid + "<figcaption>" + g.words(g.intn(1, 6, "hcw")) + ` <a href="` + g.url("a") + `">` + g.words(1) + "</a></figcaption>" + midEnd + "</div>")
		g.pop()
		b.WriteString("</figure>\n")
		return b.String()
	}
	if g.P.Carriers > 0 && g.chance(8, "hiddennestedfig") {
		// a figure nested in the figure, hidden itself or through a hidden wrapper, whose caption is the
		// first <figcaption> below the outer figure: class A
		g.push("ha")
		cap := "<figcaption>" + g.words(g.intn(1, 6, "hnfw"))
		if g.chance(50, "hnflink") {
			cap += ` <a href="` + g.url("a") + `">` + g.words(1) + "</a>"
		}
		cap += "</figcaption>"
		if g.chance(50, "hnfdirect") {
			b.WriteString(g.hiddenOpen("figure") + strings.TrimSpace(g.img()) + cap + "</figure>")
		} else {
			b.WriteString(g.hiddenOpen("div") + "<figure>" + strings.TrimSpace(g.img()) + cap + "</figure></div>")
		}
		g.pop()
		if g.chance(50, "hnfowncap") {
			b.WriteString("<figcaption>" + g.words(g.intn(1, 8, "hnfoww")) + "</figcaption>")
		}
		b.WriteString("</figure>\n")
		return b.String()
	}
	if g.P.Carriers > 0 && g.chance(8, "hiddencap") {
		// the caption itself is hidden (with or without a link inside): class A
		g.push("ha")
		cap := g.hiddenOpen("figcaption") + g.words(g.intn(1, 6, "hcw2"))
		if g.chance(60, "hiddencaplink") {
			cap += ` <a href="` + g.url("a") + `">` + g.words(1) + "</a>"
		}
		g.pop()
		b.WriteString(cap + "</figcaption></figure>\n")
		return b.String()
	}
	switch g.weighted("capk", []wc{{"none", 25}, {"text", 40}, {"link", 35}}) {
	case "text":
		b.WriteString("<figcaption" + g.at("figcaption") + ">" + g.words(g.intn(1, 12, "fcw")) + g.maybeCarrier("capcar") + "</figcaption>")
	case "link":
		b.WriteString("<figcaption" + g.at("figcaption") + ">" + g.words(g.intn(1, 8, "fcw")) + g.maybeCarrier("capcar") +
			` <a href="` + g.url("a") + `"` + g.at("a") + ">" + g.words(g.intn(1, 3, "fclw")) + "</a>" + g.maybeCarrier("capcar2") + "</figcaption>")
	}
	if c := g.maybeCarrier("figcar"); c != "" {
		b.WriteString(c)
	}
	b.WriteString("</figure>\n")
	return b.String()
}

func (g *G) video() string {
	var b strings.Builder
	b.WriteString(`<video`)
	if g.chance(60, "vsrc") {
		b.WriteString(` src="` + g.url("video") + `"`)
	}
	if g.chance(60, "vposter") {
		b.WriteString(` poster="` + g.url("poster") + `"`)
	}
	b.WriteString(` controls` + g.at("video") + ">")
	n := g.intn(0, 2, "vs#")
	for i := 0; i < n; i++ {
		b.WriteString(`<source src="` + g.url("source-v") + `" type="video/mp4"`)
		if g.intn(0, 4, "vsrcset") == 0 {
			b.WriteString(` srcset="` + g.srcset("srcset") + `"`)
		}
		b.WriteString(g.at("source") + ">")
	}
	if g.chance(40, "vtrack") {
		b.WriteString(`<track src="` + g.url("track") + `" kind="subtitles"` + g.at("track") + ">")
	}
	switch g.intn(0, 5, "vfallback") {
	case 0:
		// fallback content for browsers without <video>: class B, it is not part of the reading text
		g.push("hb")
		b.WriteString(g.words(g.intn(2, 8, "vfbw")))
		g.pop()
	case 1:
		g.push("hb")
		b.WriteString(`<a href="` + g.url("a") + `">` + g.words(g.intn(2, 5, "vfbw2")) + "</a>")
		g.pop()
	}
	b.WriteString("</video>\n")
	return b.String()
}

func (g *G) youtube() string {
	id := g.tokp("yt")
	if g.chance(70, "ytif") {
		return `<iframe src="https://www.youtube.com/embed/` + id + `?rel=0" width="560" height="315"` + g.at("iframe") + `></iframe>` + "\n"
	}
	return `<object type="application/x-shockwave-flash" data="http://www.youtube.com/v/` + id + `"` + g.at("object") + `></object>` + "\n"
}

func (g *G) vimeo() string {
	return `<iframe src="https://player.vimeo.com/video/` + g.tokp("vm") + `" width="640"` + g.at("iframe") + `></iframe>` + "\n"
}

func (g *G) tweet() string {
	id := g.tokp("tw")
	g.push("tw") // tweet words are moved wholesale into a placeholder
	defer g.pop()
	return `<blockquote class="twitter-tweet"` + g.at("blockquote") + `><p>` + g.words(g.intn(2, 12, "tww")) + `</p>` + g.maybeCarrier("twcar") + `&mdash; ` + g.words(2) +
		` <a href="https://twitter.com/user/status/` + id + `">` + g.words(2) + `</a></blockquote>` + "\n"
}

func (g *G) tweetFrame() string {
	return `<iframe src="https://platform.twitter.com/embed/index.html" data-tweet-id="` + g.tokp("tw") + `"` + g.at("iframe") + `></iframe>` + "\n"
}

func (g *G) otherFrame() string {
	g.push("hb")
	defer g.pop()
	return `<iframe src="http://ads.example.net/frame/` + g.tokp("fr") + `"` + g.at("iframe") + `>` + g.words(2) + `</iframe>` + "\n"
}

// hiddenOpen returns an opening tag that hides its subtree (class A) by one of the mechanisms
// C04 names, in one of the spellings the implementation documents.
func (g *G) hiddenOpen(tag string) string {
	mech := g.pick("hid", ` hidden`, ` hidden=""`, ` hidden="hidden"`, ` hidden="until-found"`, ` hidden="true"`, ` hidden="false"`, ` hidden="1"`, ` style="display:none"`, ` style="display: none"`,
		` style="DISPLAY:NONE;"`, ` style="color:red;display:none"`, ` style="display:none;color:red"`,
		` style="visibility:hidden"`, ` style="visibility: collapse"`, ` style="margin:0;visibility:hidden;"`, ` aria-hidden="true"`,
		// the same declarations in other spellings CSS allows
		` style="display:none !important"`, ` style="display:none!important;"`, ` style="display : none"`, ` style="display :none;"`,
		` style="visibility : hidden"`, ` style="color:red; visibility: hidden"`, ` style="display:inline;display:none"`, ` style="display:block; display: none;"`, ` style="display:none/**/"`, ` style="/* x */display:none"`)
	if !strings.Contains(mech, "aria-hidden") && g.intn(0, 9, "hidfallback") == 0 {
		// the class that exempts an aria-hidden element exempts nothing else
		mech += g.pick("hidfbcls", ` class="mwe-math-fallback-image-inline"`, ` class="fallback-image"`)
	}
	return "<" + tag + mech + g.at(tag) + ">"
}

func (g *G) hiddenWrap() string {
	g.push("ha")
	defer g.pop()
	tag := g.pick("hidtag", "div", "p", "section", "span", "div")
	var inner string
	switch tag {
	case "p", "span":
		inner = g.inline(g.intn(1, 40, "hidw"))
	default:
		inner = g.blocks(g.intn(1, 2, "hid#"))
	}
	return g.hiddenOpen(tag) + inner + "</" + tag + ">\n"
}

// scriptAttr: script and style elements sometimes carry an inline display style (pages that show
// their own source do that); they stay non-rendered content for the purposes of C04/C05.
func (g *G) scriptAttr() string {
	if g.intn(0, 5, "scriptstyle") == 0 {
		return g.pick("scriptdisp", ` style="display:block"`, ` style="display: inline"`, ` style="display:block;white-space:pre"`)
	}
	return ""
}

func (g *G) script() string {
	g.push("ha")
	defer g.pop()
	return "<script" + g.scriptAttr() + g.at("script") + `>var x = "` + g.words(g.intn(1, 4, "scw")) + `"; document.write("<p>` + g.words(20) + `</p>");</script>` + "\n"
}

func (g *G) style() string {
	g.push("ha")
	defer g.pop()
	return "<style" + g.scriptAttr() + g.at("style") + ">." + g.tok() + " { color: red } /* " + g.words(18) + " */</style>\n"
}

func (g *G) comment() string {
	g.push("ha")
	defer g.pop()
	return "<!-- " + g.words(g.intn(1, 30, "cmw")) + " -->\n"
}

// classB emits one of C04's non-reading elements with class-B tokens inside.
func (g *G) classB() string {
	g.push("hb")
	defer g.pop()
	switch g.pick("cb", "form", "noscript", "svg", "object", "embed", "applet", "button", "select", "textarea", "input") {
	case "form":
		return "<form action=\"/s\"" + g.at("form") + "><label>" + g.words(3) + `</label><input type="text" value="` + g.tok() + `"><p>` + g.words(g.intn(1, 30, "fw")) +
			"</p><select><option>" + g.words(2) + "</option></select><textarea>" + g.words(3) + "</textarea><button>" + g.words(2) + "</button></form>\n"
	case "noscript":
		return "<noscript" + g.at("noscript") + "><p>" + g.words(g.intn(1, 30, "nsw")) + "</p></noscript>\n"
	case "svg":
		return "<svg width=\"10\" height=\"10\"" + g.at("svg") + "><title>" + g.words(2) + "</title><text x=\"1\" y=\"1\">" + g.words(g.intn(1, 20, "svw")) + "</text><desc>" + g.words(2) + "</desc></svg>\n"
	case "object":
		return `<object data="/media/` + g.tokp("ob") + `.swf"` + g.at("object") + "><p>" + g.words(g.intn(1, 25, "obw")) + "</p></object>\n"
	case "embed":
		return `<embed src="/media/` + g.tokp("em") + `.swf" title="` + g.tok() + `"` + g.at("embed") + ">\n"
	case "applet":
		return `<applet code="` + g.tokp("ap") + `.class"` + g.at("applet") + ">" + g.words(g.intn(1, 25, "apw")) + "</applet>\n"
	case "button":
		return "<button" + g.at("button") + ">" + g.words(g.intn(1, 4, "btw")) + "</button>\n"
	case "select":
		if g.intn(0, 2, "selectstray") == 0 {
			// text of a select that is in no <option> (customisable selects: <button>, <legend> in <optgroup>)
			return "<select" + g.at("select") + "><button>" + g.words(2) + "</button><option>" + g.words(2) + "</option><optgroup><legend>" + g.words(2) + "</legend><option>" + g.words(1) + "</option></optgroup></select>\n"
		}
		return "<select" + g.at("select") + "><option>" + g.words(2) + "</option><option>" + g.words(2) + "</option></select>\n"
	case "textarea":
		return "<textarea" + g.at("textarea") + ">" + g.words(g.intn(1, 25, "taw")) + "</textarea>\n"
	default:
		return `<input type="submit" value="` + g.tok() + `"` + g.at("input") + ">\n"
	}
}

func (g *G) linkCluster() string {
	n := g.intn(2, 6, "lc#")
	var b strings.Builder
	b.WriteString("<ul" + g.at("ul") + ">")
	for i := 0; i < n; i++ {
		b.WriteString(`<li><a href="` + g.url("a") + `">` + g.words(g.intn(1, 3, "lcw")) + "</a></li>")
	}
	b.WriteString("</ul>\n")
	return b.String()
}

func (g *G) chrome() string {
	return "<div" + g.at("div") + ">" + g.words(g.intn(1, 5, "chw")) + "</div>\n"
}

func (g *G) asideNav() string {
	tag := g.pick("an", "aside", "nav")
	return "<" + tag + g.at(tag) + "><p>" + g.inline(g.plen()) + "</p></" + tag + ">\n"
}

func (g *G) block(kind string) string {
	if g.depth > g.P.MaxDepth {
		switch kind {
		case "container", "ltable", "quote", "list":
			kind = "para"
		}
	}
	switch kind {
	case "para":
		return g.para()
	case "longpara":
		return g.longPara(40, 110)
	case "heading":
		return g.heading()
	case "list":
		return g.list()
	case "quote":
		return g.quote()
	case "pre":
		return g.pre()
	case "container":
		return g.container()
	case "dtable":
		return g.dataTable()
	case "ltable":
		return g.layoutTable()
	case "figure":
		return g.figure()
	case "img":
		return g.img()
	case "picture":
		return g.picture()
	case "lazy":
		return g.lazySpan()
	case "video":
		return g.video()
	case "youtube":
		return g.youtube()
	case "vimeo":
		return g.vimeo()
	case "tweet":
		return g.tweet()
	case "tweetframe":
		return g.tweetFrame()
	case "iframe":
		return g.otherFrame()
	case "hidden":
		return g.hiddenWrap()
	case "script":
		return g.script()
	case "style":
		return g.style()
	case "comment":
		return g.comment()
	case "classb":
		return g.classB()
	case "links":
		return g.linkCluster()
	case "chrome":
		return g.chrome()
	case "aside":
		return g.asideNav()
	case "inlinetext":
		return g.inline(g.plen()) + "\n"
	case "strayli":
		return "<div><li>" + g.inline(g.plen()) + "</li><li>" + g.inline(g.plen()) + "</li></div>\n"
	case "ulinline":
		return "<ul><b>" + g.words(g.intn(1, 20, "uiw")) + "</b><li>" + g.inline(g.plen()) + "</li></ul>\n"
	case "unlikely":
		var marker string
		if g.chance(75, "ulclass") {
			marker = ` class="` + g.pick("ulm", c20Markers...) + `"`
		} else {
			marker = ` role="` + g.pick("ulr", c20Roles...) + `"`
		}
		inner := ""
		switch g.pick("ulk", "links", "para", "short", "mixed") {
		case "links":
			inner = g.linkCluster()
		case "para":
			inner = g.para()
		case "short":
			inner = g.chrome()
		default:
			inner = g.linkCluster() + g.para()
		}
		return "<div" + marker + ">" + inner + "</div>\n"
	case "uspacer":
		// a block that holds nothing but Unicode spaces
		sp := g.pick("uspk", "&emsp;", "&ensp;&ensp;", "&thinsp;", "\u3000", "&emsp; &nbsp;")
		if g.chance(50, "uspwrap") {
			return "<div><p>" + sp + "</p>" + g.pick("uspm", strings.TrimSpace(g.img()), strings.TrimSpace(g.video()), strings.TrimSpace(g.youtube()), g.dataTable()) + "</div>\n"
		}
		return "<p>" + sp + "</p>\n"
	case "bylinemedia":
		// media that carries a by-line marker but no text (an author portrait)
		switch g.pick("blmk", "img", "alink", "video", "div") {
		case "img":
			return `<img class="author-portrait" src="` + g.url("img") + `" width="640" height="400">` + "\n"
		case "alink":
			return `<a rel="author" href="` + g.url("a") + `"><img src="` + g.url("img") + `" width="640" height="400"></a>` + "\n"
		case "video":
			return `<video id="dateline-clip" src="` + g.url("video") + `" controls></video>` + "\n"
		default:
			return `<div class="writtenby">` + strings.TrimSpace(g.youtube()) + "</div>\n"
		}
	case "jsmedia":
		// media as the only child of a javascript: link (lightbox, gallery)
		return `<a href="javascript:` + g.pick("jsmk", "void(0)", "openLightbox()", ";") + `">` + g.pick("jsmm", strings.TrimSpace(g.img()), strings.TrimSpace(g.figure()), strings.TrimSpace(g.video())) + "</a>\n"
	case "fakeplaceholder":
		// an element of the page that carries the distiller's own marker class (a page that was distilled before)
		return `<div class="embed-placeholder" data-type="` + g.pick("fpt", "youtube", "vimeo", "twitter") + `" data-id="` + g.tokp("fg") + `"><p>` + g.words(g.intn(5, 40, "fpw")) + "</p></div>\n"
	case "linkwrapped":
		// a block whose only content is a link around one inline element
		tag := g.pick("lwtag", "h2", "h3", "p", "div")
		in := g.pick("lwin", "em", "b", "span", "strong")
		return "<" + tag + `><a href="` + g.url("a") + `"><` + in + ">" + g.words(g.intn(3, 30, "lww")) + "</" + in + "></a></" + tag + ">\n"
	case "wrappedmedia":
		m := g.pick("wmk", strings.TrimSpace(g.img()), strings.TrimSpace(g.video()), strings.TrimSpace(g.youtube()), strings.TrimSpace(g.figure()))
		tag := g.pick("wmtag", "div", "section", "header", "div")
		if g.chance(40, "wmdirect") {
			// a text-less wrapper whose last element child is a line break
			return "<" + tag + ` align="center">` + m + "<br></" + tag + ">\n"
		}
		return "<" + tag + "><p>" + m + "<br></p></" + tag + ">\n"
	case "texttable":
		// bare inline text sharing its container with a data table (and other media) that follows it directly
		tag := g.pick("tttag", "div", "section", "td-less", "li")
		inner := g.inline(g.plen()) + " " + g.pick("ttmedia", g.dataTable(), g.dataTable(), strings.TrimSpace(g.video()), strings.TrimSpace(g.youtube())) + " " + g.inline(g.plen())
		switch tag {
		case "li":
			return "<ul><li>" + inner + "</li></ul>\n"
		case "td-less":
			return "<article>" + inner + "</article>\n"
		}
		return "<" + tag + ">" + inner + "</" + tag + ">\n"
	case "separator":
		// a text block without any word: k asterisks (k identifies it), possibly inside an aside
		g.sepN++
		sep := strings.Repeat("*", 2+g.sepN) + g.pick("septail", "", "~", "|", "•") // unique per page by its length
		switch g.pick("sepwrap", "div", "p", "aside", "nav", "hr-like") {
		case "aside":
			return "<aside><p>" + sep + "</p></aside>\n"
		case "nav":
			return "<nav>" + sep + "</nav>\n"
		case "hr-like":
			return "<div><span>" + sep + "</span></div>\n"
		case "p":
			return "<p>" + sep + "</p>\n"
		}
		return "<div>" + sep + "</div>\n"
	case "nbsp":
		// words separated by no-break and other Unicode spaces
		var ws []string
		n := g.intn(5, 40, "nbw")
		for i := 0; i < n; i++ {
			ws = append(ws, g.tok())
		}
		return "<p>" + strings.Join(ws, g.pick("nbsep", "&nbsp;", "\u00a0", "\u2003", "&nbsp; ", "\u3000")) + "</p>\n"
	case "hangul":
		// Hangul-only words next to tokens (the letter word counter counts them, the fast one does not)
		hw := []string{"한국어", "문장", "텍스트", "단어", "기사", "내용", "페이지", "제목"}
		var ws []string
		n := g.intn(20, 70, "hgw")
		for i := 0; i < n; i++ {
			if i%3 == 0 {
				ws = append(ws, g.tok())
			} else {
				ws = append(ws, hw[(g.n+i)%len(hw)])
			}
		}
		return "<p>" + strings.Join(ws, " ") + "</p>\n"
	case "ctltail":
		// a control as the last thing in a list item / quote (check lists, share buttons): its text is
		// no reading text, and the words before it stay where they are
		ctlf := func() string {
			g.push("hb")
			defer g.pop()
			switch g.pick("ctltailk", "checkbox", "button", "select", "submit") {
			case "button":
				return "<button>" + g.words(1) + "</button>"
			case "select":
				return "<select><option>" + g.words(1) + "</option></select>"
			case "submit":
				return `<input type="submit" value="` + g.tok() + `">`
			}
			return `<input type="checkbox">`
		}
		if g.chance(60, "ctltaillist") {
			var b strings.Builder
			b.WriteString("<ul>")
			for i := g.intn(1, 3, "ctltailn"); i > 0; i-- {
				b.WriteString("<li>" + g.words(g.intn(8, 30, "ctltailw")) + " " + ctlf() + "</li>")
			}
			return b.String() + "</ul>\n"
		}
		return "<blockquote>" + g.words(g.intn(15, 50, "ctltailq")) + ctlf() + "</blockquote>\n"
	case "inlineimg":
		return "<p>" + g.inline(g.plen()) + " " + strings.TrimSpace(g.img()) + " " + g.inline(g.plen()) + "</p>\n"
	}
	panic("unknown block kind " + kind)
}

// page renders a whole document.
func (g *G) page() string {
	var b strings.Builder
	b.WriteString("<!DOCTYPE html>\n<html><head>")
	if g.P.Title {
		g.push("ha")
		b.WriteString("<title>" + g.words(g.intn(2, 9, "titlew")) + "</title>")
		g.pop()
	}
	b.WriteString(`<meta charset="utf-8">`)
	if g.P.HeadJunk {
		if g.chance(50, "hs") {
			b.WriteString(strings.TrimSpace(g.script()))
		}
		if g.chance(50, "hst") {
			b.WriteString(strings.TrimSpace(g.style()))
		}
	}
	b.WriteString("</head>\n<body" + g.at("body") + ">\n")
	if g.P.Core != nil {
		// chrome before, an article core, chrome after
		pre := g.intn(0, 3, "pre#")
		for i := 0; i < pre; i++ {
			b.WriteString(g.block(g.weighted("tk", g.P.Top)))
		}
		wrap := g.pick("corewrap", "", "div", "article", "main", "section")
		if wrap != "" {
			b.WriteString("<" + wrap + g.at(wrap) + ">\n")
		}
		n := g.intn(max(1, g.P.MinTop), g.P.MaxTop, "core#")
		for i := 0; i < n; i++ {
			b.WriteString(g.block(g.weighted("ck", g.P.Core)))
		}
		if wrap != "" {
			b.WriteString("</" + wrap + ">\n")
		}
		post := g.intn(0, 3, "post#")
		for i := 0; i < post; i++ {
			b.WriteString(g.block(g.weighted("tk", g.P.Top)))
		}
	} else {
		n := g.intn(max(1, g.P.MinTop), g.P.MaxTop, "top#")
		for i := 0; i < n; i++ {
			b.WriteString(g.block(g.weighted("tk", g.P.Top)))
		}
	}
	b.WriteString("</body></html>\n")
	return b.String()
}

// ---------------------------------------------------------------------------
// Standard profiles
// ---------------------------------------------------------------------------

var nestedText = []wc{{"para", 55}, {"heading", 6}, {"list", 10}, {"quote", 5}, {"pre", 4}, {"chrome", 6}, {"img", 4}, {"longpara", 10}}

func articleProfile() *Profile {
	return &Profile{
		Top: []wc{{"para", 30}, {"longpara", 14}, {"heading", 6}, {"list", 7}, {"quote", 4}, {"pre", 3}, {"container", 8},
			{"dtable", 4}, {"ltable", 3}, {"figure", 4}, {"img", 3}, {"picture", 1}, {"lazy", 1}, {"video", 2},
			{"youtube", 1}, {"vimeo", 1}, {"tweet", 1}, {"tweetframe", 1}, {"iframe", 1}, {"hidden", 3}, {"script", 1},
			{"style", 1}, {"comment", 1}, {"classb", 3}, {"links", 3}, {"chrome", 5}, {"aside", 2}, {"inlinetext", 2}, {"texttable", 2}},
		Nested: nestedText,
		Core: []wc{{"para", 30}, {"longpara", 30}, {"heading", 5}, {"list", 6}, {"quote", 4}, {"pre", 2}, {"container", 3},
			{"dtable", 3}, {"ltable", 2}, {"figure", 3}, {"img", 2}, {"picture", 1}, {"lazy", 1}, {"video", 1},
			{"youtube", 1}, {"vimeo", 1}, {"tweet", 1}, {"tweetframe", 1}, {"iframe", 1}, {"hidden", 2}, {"script", 1},
			{"style", 1}, {"comment", 1}, {"classb", 2}, {"links", 1}, {"chrome", 2}, {"aside", 1}, {"inlinetext", 1}, {"texttable", 2}},
		MinTop:   2,
		MaxTop:   12,
		MaxDepth: 2,
		Title:    true,
		HeadJunk: true,
	}
}

// optsGen draws ordinary options: nil options, log flags, http(s) page URL or none, both algorithms.
func genOpts(t *rapid.T, urlPct int) OptSpec {
	var o OptSpec
	if rapid.IntRange(0, 99).Draw(t, "optnil") < 5 {
		o.Nil = true
		return o
	}
	if rapid.IntRange(0, 99).Draw(t, "hasurl") < urlPct {
		o.URL = genPageURL(t)
	}
	if rapid.IntRange(0, 9).Draw(t, "haslog") == 0 {
		o.LogFlags = uint(rapid.IntRange(0, 31).Draw(t, "logflags"))
	}
	o.Skip = rapid.IntRange(0, 3).Draw(t, "skip") == 0
	o.Algo = uint(rapid.IntRange(0, 1).Draw(t, "algo"))
	return o
}

func genPageURL(t *rapid.T) string {
	scheme := rapid.SampledFrom([]string{"http", "https"}).Draw(t, "scheme")
	host := rapid.SampledFrom([]string{"example.com", "www.example.org", "news.site.test"}).Draw(t, "host")
	dirs := rapid.IntRange(0, 3).Draw(t, "dirs")
	p := ""
	for i := 0; i < dirs; i++ {
		p += "/" + rapid.SampledFrom([]string{"a", "blog", "2021", "sec", "x-y"}).Draw(t, "dir")
	}
	switch rapid.IntRange(0, 4).Draw(t, "tail") {
	case 4:
		if dirs == 0 {
			return scheme + "://" + host // no path at all
		}
		p += "/"
	case 0:
		p += "/"
	case 1:
		p += "/story.html"
	case 2:
		p += "/story"
	case 3:
		p += "/story.html?id=7&view=full"
	}
	return scheme + "://" + host + p
}
