package props

import (
	"fmt"
	nurl "net/url"
	"os"
	"path/filepath"
	"strings"
	"sync"
	"testing"
	"time"

	distiller "github.com/markusmobius/go-domdistiller"
	"golang.org/x/net/html"
	"pgregory.net/rapid"
)

// C12 — Apply is safe for concurrent use (run from a -race build).

func init() { register("C12", checkC12) }

type c12Job struct {
	Doc    int  `json:"doc"`
	Opt    int  `json:"opt"`
	Reader bool `json:"reader"`  // the call is ApplyForReader on the document's bytes instead of Apply on the shared tree
	ViaURL bool `json:"via_url"` // the call is ApplyForURL against the loopback server (with the shared options)
}

type c12Extra struct {
	Docs   []c11Doc  `json:"docs"` // Opts of the doc are ignored here
	Opts   []OptSpec `json:"opts"`
	Jobs   []c12Job  `json:"jobs"` // one per goroutine
	Rounds int       `json:"rounds"`
	Salt   int       `json:"salt"` // makes attribute values (style, class, id) new to the process, so that lazily filled caches are written during the concurrent phase
}

func genC12(t *rapid.T) *Case {
	var ex c12Extra
	nd := rapid.IntRange(2, 4).Draw(t, "ndocs")
	for i := 0; i < nd; i++ {
		if i >= 2 && rapid.IntRange(0, 3).Draw(t, "legacy") == 0 {
			ex.Docs = append(ex.Docs, legacyDoc(t))
			continue
		}
		d := genC11Doc(t)
		if rapid.IntRange(0, 2).Draw(t, "sparse") == 0 {
			// English prose with one non-ASCII word: the bytes whose encoding a guesser cannot decide
			para := sparseNonASCIIParagraph(rapid.SampledFrom([]string{"café", "Zürich", "don’t", "naïve"}).Draw(t, "special"), rapid.Bool().Draw(t, "longprose"))
			d.HTML = strings.Replace(d.HTML, "</body>", para+"</body>", 1)
		}
		ex.Docs = append(ex.Docs, d)
		if i < 2 {
			o := d.Opts
			o.Nil = false
			if rapid.IntRange(0, 2).Draw(t, "logall") == 0 {
				o.LogFlags = uint(rapid.IntRange(1, 31).Draw(t, "lf"))
			}
			ex.Opts = append(ex.Opts, o)
		}
	}
	ex.Opts = append(ex.Opts, OptSpec{URL: "http://example.com/forum/thread?page=2", Algo: 1, LogFlags: 30})
	g := rapid.IntRange(4, 24).Draw(t, "goroutines")
	for i := 0; i < g; i++ {
		ex.Jobs = append(ex.Jobs, c12Job{Doc: rapid.IntRange(0, nd-1).Draw(t, "jdoc"), Opt: rapid.IntRange(-1, len(ex.Opts)-1).Draw(t, "jopt"),
			Reader: rapid.IntRange(0, 3).Draw(t, "jreader") == 0, ViaURL: rapid.IntRange(0, 7).Draw(t, "jurl") == 0})
	}
	for i := range ex.Jobs {
		if ex.Docs[ex.Jobs[i].Doc].Legacy {
			ex.Jobs[i].Reader = true
			ex.Jobs[i].ViaURL = false
		}
	}
	ex.Rounds = rapid.IntRange(1, 3).Draw(t, "rounds")
	ex.Salt = rapid.IntRange(0, 1<<30).Draw(t, "salt")
	for i := range ex.Docs {
		if !ex.Docs[i].Legacy {
			ex.Docs[i].HTML = saltAttributes(ex.Docs[i].HTML, ex.Salt+i*1000)
		}
	}
	c := &Case{Property: "C12"}
	c.SetExtra(ex)
	return c
}

// saltAttributes gives the first paragraphs, cells and list items of a page attribute values that
// depend on the salt.
func saltAttributes(page string, salt int) string {
	n := 0
	for _, tag := range []string{"<p>", "<td>", "<li>", "<div>", "<span>"} {
		for k := 0; k < 6; k++ {
			i := strings.Index(page, tag)
			if i < 0 {
				break
			}
			n++
			v := fmt.Sprint(salt + n)
			repl := tag[:len(tag)-1] + ` style="margin:` + v + `px" class="k` + v + `" id="i` + v + `" lang="x-` + v + `">`
			page = page[:i] + repl + page[i+len(tag):]
		}
	}
	// vocabulary names that are new to the process as well (item types in both scheme spellings, item
	// properties, meta properties, link relations): tables that are filled lazily per name are written
	// during the concurrent phase
	v := fmt.Sprint(salt)
	extra := `<div itemscope itemtype="https://schema.org/Article` + v + `"><span itemprop="name` + v + `">n</span></div>` +
		`<div itemscope itemtype="https://schema.org/Person?v=` + v + `"><span itemprop="name">m</span></div>` +
		`<div itemscope itemtype="http://schema.org/Thing` + v + `"><a rel="r` + v + `" href="/r">r</a></div>`
	if i := strings.LastIndex(page, "</body>"); i >= 0 {
		page = page[:i] + extra + page[i:]
	}
	if i := strings.Index(page, "</head>"); i >= 0 {
		page = page[:i] + `<meta property="og:x` + v + `" content="c"><meta name="n` + v + `" content="c">` + page[i:]
	}
	return page
}

func raceLogSize() int64 {
	gr := os.Getenv("GORACE")
	i := strings.Index(gr, "log_path=")
	if i < 0 {
		return 0
	}
	p := strings.Fields(gr[i+len("log_path="):])[0]
	matches, _ := filepath.Glob(p + ".*")
	var tot int64
	for _, m := range matches {
		if fi, err := os.Stat(m); err == nil {
			tot += fi.Size()
		}
	}
	return tot
}

func raceLogTail() string {
	gr := os.Getenv("GORACE")
	i := strings.Index(gr, "log_path=")
	if i < 0 {
		return ""
	}
	p := strings.Fields(gr[i+len("log_path="):])[0]
	matches, _ := filepath.Glob(p + ".*")
	for _, m := range matches {
		if b, err := os.ReadFile(m); err == nil && len(b) > 0 {
			return truncate(string(b), 3000)
		}
	}
	return ""
}

func raceSignature(report string) string {
	// first frame of the distiller inside the report
	for _, l := range strings.Split(report, "\n") {
		l = strings.TrimSpace(l)
		if strings.HasPrefix(l, "github.com/markusmobius/go-domdistiller") && !strings.Contains(l, "verifharness") {
			if j := strings.Index(l, "("); j > 0 {
				l = l[:j]
			}
			return strings.TrimPrefix(l, "github.com/markusmobius/go-domdistiller/")
		}
	}
	return "unknown-frame"
}

func checkC12(c *Case) (*Violation, caseInfo) {
	var info caseInfo
	var ex c12Extra
	c.GetExtra(&ex)
	if len(ex.Docs) == 0 || len(ex.Jobs) == 0 {
		info.Skip = "empty-workload"
		return nil, info
	}
	trees := make([]*html.Node, len(ex.Docs))
	for i, d := range ex.Docs {
		t, err := refParse(d.HTML)
		if err != nil {
			info.Skip = "parse-failed"
			return nil, info
		}
		trees[i] = t
	}
	// options are shared between goroutines, and all of them share one *url.URL per distinct URL string
	urls := map[string]*nurl.URL{}
	opts := make([]*distiller.Options, len(ex.Opts))
	for i, o := range ex.Opts {
		opts[i] = o.Build()
		if opts[i].OriginalURL != nil {
			if u, ok := urls[o.URL]; ok {
				opts[i].OriginalURL = u
			} else {
				urls[o.URL] = opts[i].OriginalURL
			}
		}
	}
	pick := func(j c12Job) (*html.Node, *distiller.Options) {
		var o *distiller.Options
		if j.Opt >= 0 && j.Opt < len(opts) {
			o = opts[j.Opt]
		}
		return trees[j.Doc%len(trees)], o
	}
	// pages for the ApplyForURL jobs
	server, _ := pageServer()
	urlPaths := make([]string, len(ex.Docs))
	for i, d := range ex.Docs {
		urlPaths[i] = "/c12/" + shortHash(d.HTML) + "/page.html"
		srvPages.Store(urlPaths[i], d.HTML)
	}
	before := raceLogSize()
	var mu sync.Mutex
	var viol *Violation
	rounds := max(1, ex.Rounds)
	gotAll := make([][]string, rounds)
	for r := range gotAll {
		gotAll[r] = make([]string, len(ex.Jobs))
	}
	// The concurrent phase comes first: state that is filled lazily on first use must be filled
	// while several goroutines are inside Apply, not by a sequential warm-up.
	for r := 0; r < rounds; r++ {
		var wg sync.WaitGroup
		start := make(chan struct{})
		for i, j := range ex.Jobs {
			wg.Add(1)
			go func(i int, j c12Job) {
				defer wg.Done()
				tr, o := pick(j)
				<-start
				var got string
				func() {
					defer func() {
						if rec := recover(); rec != nil {
							got = fmt.Sprintf("panic: %v", rec)
						}
					}()
					var res *distiller.Result
					var err error
					if j.ViaURL && server != nil {
						res, err = distiller.ApplyForURL(server.URL+urlPaths[j.Doc%len(ex.Docs)], time.Duration(5+i%7)*time.Second, o)
					} else if j.Reader {
						res, err = distiller.ApplyForReader(strings.NewReader(ex.Docs[j.Doc%len(ex.Docs)].Bytes()), o)
					} else {
						res, err = distiller.Apply(tr, o)
					}
					if err != nil {
						got = "error: " + err.Error()
					} else {
						got = canonical(res)
					}
				}()
				mu.Lock()
				gotAll[r][i] = got
				mu.Unlock()
			}(i, j)
		}
		close(start)
		wg.Wait()
	}
	// sequential reference results
	want := make([]string, len(ex.Jobs))
	for i, j := range ex.Jobs {
		tr, o := pick(j)
		out := guarded(0, func() (*distiller.Result, error) {
			if j.ViaURL && server != nil {
				return distiller.ApplyForURL(server.URL+urlPaths[j.Doc%len(ex.Docs)], 10*time.Second, o)
			}
			if j.Reader {
				return distiller.ApplyForReader(strings.NewReader(ex.Docs[j.Doc%len(ex.Docs)].Bytes()), o)
			}
			return distiller.Apply(tr, o)
		})
		if out.Panicked {
			info.Skip = "apply-panicked"
			return nil, info
		}
		if out.Err != nil {
			want[i] = "error: " + out.Err.Error()
		} else {
			want[i] = canonical(out.Res)
		}
	}
	for r := 0; r < rounds && viol == nil; r++ {
		for i, j := range ex.Jobs {
			if gotAll[r][i] != want[i] {
				viol = violationf("C12 concurrent-result-differs fields="+diffFields(want[i], gotAll[r][i]),
					"goroutine %d (document %d, options %d), round %d: result differs from the sequential result of the same call:\n%s", i, j.Doc, j.Opt, r, truncate(diffCanon(want[i], gotAll[r][i]), 1500))
				break
			}
		}
	}
	if raceLogSize() > before {
		rep := raceLogTail()
		viol = violationf("C12 data-race "+raceSignature(rep), "the race detector reported a data race during this workload:\n%s", rep)
	}
	// classification
	shareTree, shareOpts, pn := map[int]int{}, map[int]int{}, false
	for _, j := range ex.Jobs {
		shareTree[j.Doc]++
		shareOpts[j.Opt]++
		if j.Opt >= 0 && j.Opt < len(ex.Opts) && ex.Opts[j.Opt].Algo == 1 && ex.Opts[j.Opt].URL != "" && !ex.Opts[j.Opt].Skip {
			pn = true
		}
	}
	st2, so2 := false, false
	for _, n := range shareTree {
		if n >= 2 {
			st2 = true
		}
	}
	for k, n := range shareOpts {
		if n >= 2 && k >= 0 {
			so2 = true
		}
	}
	info.Classes = append(info.Classes, bucket("goroutines", len(ex.Jobs)))
	if pn {
		info.Classes = append(info.Classes, "PageNumber-with-URL")
	}
	for _, o := range ex.Opts {
		if o.LogFlags != 0 {
			info.Classes = append(info.Classes, "logging-on")
			break
		}
	}
	info.NonTrivial = len(ex.Jobs) >= 8 && st2 && so2 && pn
	return viol, info
}

func TestC12(t *testing.T) {
	if raceLogSize() < 0 {
		t.Skip()
	}
	runProp(t, genC12, checkC12)
}
