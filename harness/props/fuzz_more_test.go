package props

import (
	"testing"

	"pgregory.net/rapid"
)

// Coverage-guided variants of some rapid properties (thorough tier only): the fuzzer mutates the
// bit-stream that rapid's generators consume, so new coverage in the library steers generation.

func fuzzProp(f *testing.F, gen func(*rapid.T) *Case, check checkFn) {
	f.Add([]byte{})
	f.Add([]byte{1, 2, 3, 4, 5, 6, 7, 8, 9, 10, 11, 12, 13, 14, 15, 16, 17, 18, 19, 20})
	f.Add(make([]byte, 256))
	f.Fuzz(rapid.MakeFuzz(func(rt *rapid.T) {
		c := gen(rt)
		if v := evalCase(c, check); v != nil {
			rt.Fatalf("property %s violated [%s]: %s", c.Property, v.Signature, v.Detail)
		}
	}))
}

func FuzzC16(f *testing.F) { fuzzProp(f, genC16, checkC16) }
func FuzzC19(f *testing.F) { fuzzProp(f, genC19, checkC19) }
func FuzzC14(f *testing.F) { fuzzProp(f, genC14, checkC14) }
func FuzzC15(f *testing.F) { fuzzProp(f, genC15, checkC15) }
func FuzzC06(f *testing.F) { fuzzProp(f, genC06, checkC06) }
func FuzzC04(f *testing.F) { fuzzProp(f, genC04, checkC04) }
