// show prints what the distiller returns for an HTML file (debugging aid).
package main

import (
	"fmt"
	nurl "net/url"
	"os"
	"strings"

	"github.com/go-shiori/dom"
	distiller "github.com/markusmobius/go-domdistiller"
)

func main() {
	b, _ := os.ReadFile(os.Args[1])
	var opts *distiller.Options
	if len(os.Args) > 2 {
		u, _ := nurl.Parse(os.Args[2])
		opts = &distiller.Options{OriginalURL: u}
		if len(os.Args) > 3 && os.Args[3] == "pn" {
			opts.PaginationAlgo = distiller.PageNumber
		}
		if len(os.Args) > 4 {
			opts.LogFlags = distiller.LogEverything
		}
	}
	res, err := distiller.ApplyForReader(strings.NewReader(string(b)), opts)
	if err != nil {
		fmt.Println("ERR", err)
		return
	}
	fmt.Printf("TITLE: %q\nWORDCOUNT: %d\nIMAGES: %v\nPAGINATION: %+v\nMARKUP: %+v\nTEXT:\n%s\nHTML:\n%s\n", res.Title, res.WordCount, res.ContentImages, res.PaginationInfo, res.MarkupInfo, res.Text, dom.OuterHTML(res.Node))
}
